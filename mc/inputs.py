"""
Input families.  A table is {"columns": [...], "types": {col: "str"|"int"|"float"|"bool"}, "rows": [tuple,...]}.
All enumeration is exhaustive: T<=k(A) = all multisets of <= k rows over a row alphabet A.
"""

import itertools

D_TYPES = {"g": "str", "x": "int", "y": "float"}
E_TYPES = {"g": "str", "w": "int", "y": "float"}

D_ROWS = [("a", 1, 1.0), ("a", 2, None), ("b", 1, 2.0), (None, 2, 1.0), (None, 3, None)]
E_ROWS = [("a", 10, None), ("a", 20, 5.0), ("c", 10, 1.0), (None, 30, 2.0)]

# three-row alphabets for quick tiers: still force duplicate keys, null keys, null values
D_ROWS_Q = [("a", 1, 1.0), ("a", 2, None), (None, 2, 1.0)]
E_ROWS_Q = [("a", 10, None), ("c", 10, 1.0), (None, 30, 2.0)]

# null-free variants (used where a property's own precondition excludes nulls)
D_ROWS_NN = [("a", 1, 1.0), ("a", 2, 3.0), ("b", 1, 2.0), ("b", 3, 1.0)]


def mk(columns, types, rows):
    return {"columns": list(columns), "types": dict(types), "rows": [tuple(r) for r in rows]}


def multisets(alphabet, k):
    out = []
    for n in range(k + 1):
        out.extend(itertools.combinations_with_replacement(alphabet, n))
    return [list(t) for t in out]


def family_d(k, rows=None):
    rows = D_ROWS if rows is None else rows
    return [mk(["g", "x", "y"], D_TYPES, r) for r in multisets(rows, k)]


def family_e(k, rows=None):
    rows = E_ROWS if rows is None else rows
    return [mk(["g", "w", "y"], E_TYPES, r) for r in multisets(rows, k)]


def full_domain_d():
    return [(g, x, y) for g in ("a", "b", None) for x in (1, 2) for y in (None, 1.0, 2.0)]


def data_maps(tables_needed, kd, ke, d_rows=None, e_rows=None):
    """All combinations of inputs for the tables a pipeline reads."""
    fams = []
    for t in tables_needed:
        if t == "d":
            fams.append([("d", x) for x in family_d(kd, d_rows)])
        elif t == "e":
            fams.append([("e", x) for x in family_e(ke, e_rows)])
        else:
            raise KeyError(t)
    return [dict(c) for c in itertools.product(*fams)]


# ---------------------------------------------------------------------------------------
# conversions

_PD_DTYPES = {"str": "object", "int": "int64", "float": "float64", "bool": "bool", "date": "datetime64[ns]", "datetime": "datetime64[ns]"}


def to_pandas(t, index=None):
    import pandas

    cols = {}
    n = len(t["rows"])
    for j, c in enumerate(t["columns"]):
        vals = [r[j] for r in t["rows"]]
        ty = t["types"][c]
        if ty in ("date", "datetime"):
            cols[c] = pandas.to_datetime(pandas.Series(vals, dtype="object"))
            continue
        if ty == "int" and any(v is None for v in vals):
            ty = "float"
        if ty == "bool" and any(v is None for v in vals):
            ty = "str"
        cols[c] = pandas.Series(vals, dtype=_PD_DTYPES[ty])
    df = pandas.DataFrame(cols, columns=t["columns"])
    if n == 0:
        df = pandas.DataFrame({c: pandas.Series([], dtype=_PD_DTYPES[t["types"][c]]) for c in t["columns"]})
    if index is not None:
        df.index = index
    return df


def to_polars(t, lazy=False):
    import polars as pl

    m = {"str": pl.Utf8, "int": pl.Int64, "float": pl.Float64, "bool": pl.Boolean, "date": pl.Date, "datetime": pl.Datetime}
    schema = {c: m[t["types"][c]] for c in t["columns"]}
    data = {c: [r[j] for r in t["rows"]] for j, c in enumerate(t["columns"])}
    df = pl.DataFrame(data, schema=schema)
    if lazy:
        return df.lazy()
    return df


_SQL_TYPES = {"str": "TEXT", "int": "INTEGER", "float": "REAL", "bool": "INTEGER", "date": "TEXT", "datetime": "TEXT"}


def to_sqlite(conn, name, t):
    q = lambda s: '"' + s.replace('"', '""') + '"'
    cur = conn.cursor()
    cur.execute(f"DROP TABLE IF EXISTS {q(name)}")
    cur.execute(
        f"CREATE TABLE {q(name)} (" + ", ".join(f"{q(c)} {_SQL_TYPES[t['types'][c]]}" for c in t["columns"]) + ")"
    )
    if t["rows"]:
        cur.executemany(
            f"INSERT INTO {q(name)} VALUES (" + ", ".join("?" for _ in t["columns"]) + ")",
            [tuple((int(v) if isinstance(v, bool) else v) for v in r) for r in t["rows"]],
        )
    cur.close()


def rename_table(t, cmap):
    return {
        "columns": [cmap.get(c, c) for c in t["columns"]],
        "types": {cmap.get(c, c): ty for c, ty in t["types"].items()},
        "rows": list(t["rows"]),
    }
