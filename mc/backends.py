"""
Executors.  Every backend returns either
   ("ok", [columns], [row tuples in result order])   values normalised: None for null/NaN/NaT/NA
   ("raise", ExceptionClassName, message)
"""

import math
import sqlite3
import warnings

from mc import inputs

_state = {}


def norm_value(v):
    if v is None:
        return None
    try:
        import numpy

        if isinstance(v, numpy.generic):
            v = v.item()
    except Exception:
        pass
    if v is None:
        return None
    if isinstance(v, float):
        if math.isnan(v):
            return None
        return v
    if isinstance(v, (bool, int, str)):
        return v
    try:
        import pandas

        if v is pandas.NA or v is pandas.NaT:
            return None
        if pandas.isna(v):
            return None
    except Exception:
        pass
    return v


def frame_result(df):
    """pandas frame -> ("ok", cols, rows)."""
    cols = [str(c) for c in df.columns]
    arrs = [df.iloc[:, j].tolist() for j in range(len(cols))]
    n = df.shape[0]
    rows = [tuple(norm_value(arrs[j][i]) for j in range(len(cols))) for i in range(n)]
    return ("ok", cols, rows)


def polars_result(df):
    import polars as pl

    if isinstance(df, pl.LazyFrame):
        df = df.collect()
    cols = list(df.columns)
    rows = [tuple(norm_value(v) for v in r) for r in df.rows()]
    return ("ok", cols, rows)


def _exc(e):
    return ("raise", type(e).__name__, str(e)[:300])


def run_pandas(ops, data, index=None):
    try:
        dm = {k: inputs.to_pandas(t, index=(index(len(t["rows"])) if index else None)) for k, t in data.items()}
        with warnings.catch_warnings():
            warnings.simplefilter("ignore")
            res = ops.eval(dm)
        return frame_result(res)
    except Exception as e:
        return _exc(e)


def run_pandas_frames(ops, frames):
    try:
        with warnings.catch_warnings():
            warnings.simplefilter("ignore")
            res = ops.eval(frames)
        return frame_result(res)
    except Exception as e:
        return _exc(e)


def run_polars(ops, data, lazy=False):
    try:
        dm = {k: inputs.to_polars(t, lazy=lazy) for k, t in data.items()}
        with warnings.catch_warnings():
            warnings.simplefilter("ignore")
            res = ops.eval(dm)
        return polars_result(res)
    except BaseException as e:  # polars raises pyo3 panics derived from BaseException
        if isinstance(e, (KeyboardInterrupt, SystemExit)):
            raise
        return _exc(e)


def run_polars_eager_model(ops, data):
    """the same pipeline through PolarsModel(use_lazy_eval=False) on eager frames (a second realisation path)"""
    try:
        import data_algebra.polars_model

        m = _state.get("polars_eager_model")
        if m is None:
            m = data_algebra.polars_model.PolarsModel(use_lazy_eval=False)
            _state["polars_eager_model"] = m
        dm = {k: inputs.to_polars(t, lazy=False) for k, t in data.items()}
        with warnings.catch_warnings():
            warnings.simplefilter("ignore")
            res = m.eval(ops, data_map=dm)
        return polars_result(res)
    except BaseException as e:
        if isinstance(e, (KeyboardInterrupt, SystemExit)):
            raise
        return _exc(e)


def sqlite_conn():
    """One prepared in-memory connection per process."""
    c = _state.get("conn")
    if c is None:
        import data_algebra.SQLite

        c = sqlite3.connect(":memory:")
        data_algebra.SQLite.SQLiteModel().prepare_connection(c)
        # aggregates the PostgreSQL dialect text names; only used for pgtext@sqlite
        _register_pg_compat(c)
        _state["conn"] = c
    return c


def _register_pg_compat(c):
    import statistics

    class _Agg:
        def __init__(self):
            self.v = []

        def step(self, x):
            if x is not None:
                self.v.append(x)

    class StdSamp(_Agg):
        def finalize(self):
            return statistics.stdev(self.v) if len(self.v) > 1 else None

    class VarSamp(_Agg):
        def finalize(self):
            return statistics.variance(self.v) if len(self.v) > 1 else None

    try:
        c.create_aggregate("STDDEV_SAMP", 1, StdSamp)
        c.create_aggregate("VAR_SAMP", 1, VarSamp)
    except Exception:
        pass


def sqlite_model():
    m = _state.get("sqlite_model")
    if m is None:
        import data_algebra.SQLite

        m = data_algebra.SQLite.SQLiteModel()
        _state["sqlite_model"] = m
    return m


def pg_model():
    m = _state.get("pg_model")
    if m is None:
        import data_algebra.PostgreSQL

        m = data_algebra.PostgreSQL.PostgreSQLModel()
        _state["pg_model"] = m
    return m


def all_models():
    """name -> dialect model, one instance per process"""
    m = _state.get("all_models")
    if m is None:
        import data_algebra.BigQuery
        import data_algebra.MySQL
        import data_algebra.SparkSQL

        m = {
            "SQLite": sqlite_model(),
            "PostgreSQL": pg_model(),
            "BigQuery": data_algebra.BigQuery.BigQueryModel(),
            "SparkSQL": data_algebra.SparkSQL.SparkSQLModel(),
            "MySQL": data_algebra.MySQL.MySQLModel(),
        }
        _state["all_models"] = m
    return m


def gen_sql(ops, model=None, sql_format_options=None):
    """-> ("ok", sql) | ("raise", cls, msg)"""
    try:
        if model is None:
            model = sqlite_model()
        with warnings.catch_warnings():
            warnings.simplefilter("ignore")
            return ("ok", model.to_sql(ops, sql_format_options=sql_format_options))
    except Exception as e:
        return _exc(e)


def run_sql(sql, data):
    """Load the tables into the process-local SQLite engine and run the text."""
    conn = sqlite_conn()
    try:
        for k, t in data.items():
            inputs.to_sqlite(conn, k, t)
        cur = conn.cursor()
        cur.execute(sql)
        cols = [d[0] for d in cur.description]
        rows = [tuple(norm_value(v) for v in r) for r in cur.fetchall()]
        cur.close()
        return ("ok", cols, rows)
    except Exception as e:
        return _exc(e)


def run_sqlite(ops, data, model=None, sql_format_options=None):
    g = gen_sql(ops, model=model, sql_format_options=sql_format_options)
    if g[0] != "ok":
        return g
    return run_sql(g[1], data)


def catalog_ok(ops, model=None):
    """True iff every method use is known and recommended ('y') for the SQL model; Pandas is 'y' on every row."""
    if model is None:
        model = sqlite_model()
    return len(model.non_known_methods(ops)) == 0 and len(model.non_recommended_methods(ops)) == 0
