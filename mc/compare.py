"""
The comparison relation EQ of DESIGN 2.6 on normalised results ("ok", cols, rows).
"""

import math
from collections import Counter

REL_TOL = 1e-8
ABS_TOL = 1e-9


def _num(v):
    if isinstance(v, bool):
        return float(int(v))
    if isinstance(v, (int, float)):
        return float(v)
    return None


def val_eq(a, b):
    if a is None or b is None:
        return a is None and b is None
    na, nb = _num(a), _num(b)
    if na is not None and nb is not None:
        if math.isinf(na) or math.isinf(nb):
            return na == nb
        return abs(na - nb) <= max(ABS_TOL, REL_TOL * max(abs(na), abs(nb)))
    if na is not None or nb is not None:
        return False
    return a == b


def _key(v):
    if v is None:
        return ("0",)
    n = _num(v)
    if n is not None:
        if math.isinf(n):
            return ("n", "inf" if n > 0 else "-inf")
        if n == 0:
            return ("n", "0")
        return ("n", "%.7e" % n)
    return ("s", str(v))


def row_eq(r1, r2):
    return len(r1) == len(r2) and all(val_eq(a, b) for a, b in zip(r1, r2))


def _align(res_a, res_b):
    """Return rows of b re-ordered into a's column order, or None if column sets differ."""
    ca, cb = res_a[1], res_b[1]
    if len(ca) != len(cb) or set(ca) != set(cb) or len(set(ca)) != len(ca) or len(set(cb)) != len(cb):
        return None
    pos = {c: j for j, c in enumerate(cb)}
    idx = [pos[c] for c in ca]
    return [tuple(r[j] for j in idx) for r in res_b[2]]


def _multiset_eq(ra, rb):
    if len(ra) != len(rb):
        return False
    ka = Counter(tuple(_key(v) for v in r) for r in ra)
    kb = Counter(tuple(_key(v) for v in r) for r in rb)
    if ka == kb:
        return True
    # tolerance-aware backtracking (rounding boundaries); small tables only
    if len(ra) > 12:
        return False
    used = [False] * len(rb)

    def rec(i):
        if i == len(ra):
            return True
        for j in range(len(rb)):
            if not used[j] and row_eq(ra[i], rb[j]):
                used[j] = True
                if rec(i + 1):
                    return True
                used[j] = False
        return False

    return rec(0)


def EQ(res_a, res_b, ordered=False):
    """Both must be ("ok", cols, rows).  Column order is ignored, row order only if `ordered`."""
    if res_a[0] != "ok" or res_b[0] != "ok":
        return False
    rb = _align(res_a, res_b)
    if rb is None:
        return False
    ra = res_a[2]
    if ordered:
        return len(ra) == len(rb) and all(row_eq(x, y) for x, y in zip(ra, rb))
    return _multiset_eq(ra, rb)


def same_outcome(res_a, res_b, ordered=False):
    """EQ, or both raised (exception classes are not compared)."""
    if res_a[0] == "raise" and res_b[0] == "raise":
        return True
    return EQ(res_a, res_b, ordered=ordered)


def project_cols(res, cols):
    pos = {c: j for j, c in enumerate(res[1])}
    idx = [pos[c] for c in cols]
    return ("ok", list(cols), [tuple(r[j] for j in idx) for r in res[2]])


def brief(res, maxrows=8):
    if res[0] != "ok":
        return {"raise": res[1], "msg": res[2][:160]}
    return {"cols": res[1], "rows": [list(r) for r in res[2][:maxrows]], "n": len(res[2])}
