"""
Explicit-state breadth-first search over the real pipeline builder (DESIGN 2.1).

A state is a real ViewRepresentation plus one shortest history that produced it; a
transition is one public builder call taken from a finite column-aware menu; states are
de-duplicated by the structural dump hist.canon (finer than == on purpose).
"""

import hashlib

from mc import hist as H
from mc import menus


class State:
    __slots__ = ("hist", "ops", "cols", "roles", "key", "depth", "prefixes", "rstates")

    def __init__(self, hist, ops, cols, roles, key, depth, prefixes, rstates):
        self.hist = hist
        self.ops = ops
        self.cols = cols
        self.roles = roles
        self.key = key
        self.depth = depth
        self.prefixes = prefixes  # live prefix objects (for shared sub-DAG references)
        self.rstates = rstates  # (cols, roles) per prefix


class Explorer:
    def __init__(self, menu, table="d", max_states=2_000_000, columns=None, roles=None, key_extra=None):
        self.menu = menu
        # optional refinement of the state key by something the *history* says (e.g. the final order_rows
        # request): two histories the builder maps to the same pipeline are then kept apart, so that a check
        # whose oracle reads the history judges both (a builder that wrongly simplifies one history into a
        # pipeline another history legitimately produces would otherwise be merged away)
        self.key_extra = key_extra
        self.table = table
        self.init_columns = columns  # optional: start from a table description with other columns
        self.init_roles = roles
        self.states = {}  # key -> State
        self.order = []  # keys in BFS order
        self.transitions = 0
        self.rejected = {}  # exception class -> count
        self.rejected_samples = []
        self.confluences = 0
        self.edges = []  # (src key, step, dst key) if keep_edges
        self.keep_edges = False
        self.max_states = max_states

    def initial(self):
        hist = {"table": self.table, "steps": []}
        if self.init_columns is not None:
            hist["columns"] = list(self.init_columns)
            hist["roles"] = dict(self.init_roles)
            ops = H.table_description(self.table, self.init_columns)
            cols = list(self.init_columns)
            roles = dict(self.init_roles)
        else:
            ops = H.table_description(self.table)
            cols = list(H.TABLES[self.table])
            roles = dict(H.TABLE_ROLES[self.table])
        key = hashlib.sha1(H.canon(ops).encode()).hexdigest()
        return State(hist, ops, cols, roles, key, 0, [ops], [(cols, roles)])

    def successors(self, s):
        """Yield (step, State|None, exc_name|None) for every menu entry at s."""
        for step in self.menu(s.cols, s.roles, s.depth, s.hist):
            try:
                nops = H.apply_step(s.ops, step, prefixes=s.prefixes)
            except Exception as e:
                yield step, None, type(e).__name__
                continue
            ncols, nroles = menus.step_columns(step, s.cols, s.roles, s.rstates)
            if list(nops.column_names) != list(ncols) and set(nops.column_names) != set(ncols):
                # explorer-side bookkeeping disagrees with the builder's declared columns:
                # keep the builder's view (C08 checks declared columns against results)
                ncols = list(nops.column_names)
                nroles = {c: nroles.get(c, "n") for c in ncols}
            else:
                ncols = list(nops.column_names)
            nh = dict(s.hist)
            nh["steps"] = s.hist["steps"] + [step]
            ck = H.canon(nops)
            if self.key_extra is not None:
                ck = ck + "|" + self.key_extra(nh)
            key = hashlib.sha1(ck.encode()).hexdigest()
            ns = State(nh, nops, ncols, nroles, key, s.depth + 1, s.prefixes + [nops], s.rstates + [(ncols, nroles)])
            yield step, ns, None

    def run(self, depth, on_transition=None):
        init = self.initial()
        self.states[init.key] = init
        self.order.append(init.key)
        frontier = [init]
        for d in range(depth):
            nxt = []
            for s in frontier:
                for step, ns, exc in self.successors(s):
                    self.transitions += 1
                    if ns is None:
                        self.rejected[exc] = self.rejected.get(exc, 0) + 1
                        if len(self.rejected_samples) < 5:
                            self.rejected_samples.append({"history": H.short(s.hist), "step": step, "raised": exc})
                        if on_transition is not None:
                            on_transition(s, step, None, exc)
                        continue
                    if on_transition is not None:
                        on_transition(s, step, ns, None)
                    if self.keep_edges:
                        self.edges.append((s.key, step, ns.key))
                    if ns.key in self.states:
                        self.confluences += 1
                        continue
                    if len(self.states) >= self.max_states:
                        raise RuntimeError("state cap hit: the tier is mis-sized (no truncation allowed)")
                    self.states[ns.key] = ns
                    self.order.append(ns.key)
                    nxt.append(ns)
            frontier = nxt
        return [self.states[k] for k in self.order]

    def stats(self):
        return {
            "states": len(self.states),
            "transitions": self.transitions,
            "rejected_transitions": dict(self.rejected),
            "confluences": self.confluences,
        }
