"""
Step menus ("alphabets") for the pipeline explorer.  A menu is a function
   menu(cols, roles, ctx) -> list of step records
that instantiates templates over the current columns by role, simplest first.
roles: k = string key, n = numeric, b = boolean, s = string label.
"""

from mc.hist import C, V, O, U, M, F, TABLE_ROLES, TABLES


def _pick(cols, roles):
    K = [c for c in cols if roles.get(c) == "k"]
    N = [c for c in cols if roles.get(c) == "n"]
    return K, N


def _new(cols, base="z"):
    if base not in cols:
        return base
    i = 2
    while f"{base}{i}" in cols:
        i += 1
    return f"{base}{i}"


def scalar_exprs(A, B):
    ex = [("one", V(1)), ("inc", O("+", C(A), V(1))), ("neg", U("-", C(A))), ("isnull", M("is_null", C(A)))]
    if B is not None:
        ex += [
            ("mul", O("*", C(A), C(B))),
            ("max2", M("maximum", C(A), C(B))),
            ("coal", M("coalesce", C(B), V(0))),
            ("ifelse", M("if_else", O(">", C(A), V(1)), C(A), C(B))),
            ("gt", O(">", C(A), C(B))),
            ("sub", O("-", C(A), C(B))),
        ]
    return ex


def extend_items(cols, roles, rich=True):
    K, N = _pick(cols, roles)
    items = []
    if not N:
        z = _new(cols)
        return [{"op": "extend", "ops": {z: V(1)}}]
    A = N[0]
    B = N[1] if len(N) > 1 else None
    z = _new(cols)
    for nm, e in scalar_exprs(A, B):
        items.append({"op": "extend", "ops": {z: e}})
    # overwriting assignments (the shapes extend-merging keys on)
    items.append({"op": "extend", "ops": {A: O("+", C(A), V(1))}})
    if B is not None:
        items.append({"op": "extend", "ops": {A: O("*", C(B), V(2))}})
        items.append({"op": "extend", "ops": {B: M("coalesce", C(B), V(0))}})
        # two assignments: new + overwrite, the overwrite read by the other
        items.append({"op": "extend", "ops": {z: O("+", C(A), V(1)), B: O("*", C(A), V(10))}})
        z2 = _new(cols + [z])
        items.append({"op": "extend", "ops": {z: O("+", C(A), V(1)), z2: O("+", C(B), V(1))}})
    return items


def window_items(cols, roles):
    K, N = _pick(cols, roles)
    if not N:
        return []
    A = N[0]
    B = N[1] if len(N) > 1 else None
    z = _new(cols)
    items = []
    parts = [1] + ([[K[0]]] if K else [])
    src = B if B is not None else A
    for pb in parts:
        for fn in ("sum", "max", "min", "mean", "count"):
            items.append({"op": "extend", "ops": {z: M(fn, C(src))}, "partition_by": pb})
        items.append({"op": "extend", "ops": {z: F("_size")}, "partition_by": pb})
        items.append({"op": "extend", "ops": {z: M("sum", V(1))}, "partition_by": pb})
    if K and B is not None:
        # two order columns with mixed directions (reverse is a proper, non-empty subset of order_by)
        items.append({"op": "extend", "ops": {z: F("_row_number")}, "partition_by": [K[0]], "order_by": [A, B], "reverse": [B]})
        # two partition columns
        items.append({"op": "extend", "ops": {z: M("sum", C(B))}, "partition_by": [K[0], A]})
        items.append({"op": "extend", "ops": {z: F("_row_number")}, "partition_by": [K[0], A], "order_by": [B], "reverse": []})
    # ordered windows
    for pb in parts:
        for rv in ([], [A]):
            if B is not None:
                for fn in ("cumsum", "cummax"):
                    items.append({"op": "extend", "ops": {z: M(fn, C(B))}, "partition_by": pb, "order_by": [A], "reverse": rv})
                items.append({"op": "extend", "ops": {z: M("shift", C(B))}, "partition_by": pb, "order_by": [A], "reverse": rv})
            items.append({"op": "extend", "ops": {z: F("_row_number")}, "partition_by": pb, "order_by": [A], "reverse": rv})
    return items


def project_items(cols, roles):
    K, N = _pick(cols, roles)
    items = []
    groups = [[]] + ([[K[0]]] if K else [])
    z = "s"
    if N:
        A = N[0]
        B = N[1] if len(N) > 1 else A
        aggs = [("sum", C(A)), ("max", C(B)), ("mean", C(B)), ("count", C(B)), ("min", C(A))]
        for gb in groups:
            for fn, a in aggs:
                items.append({"op": "project", "ops": {"s": M(fn, a)}, "group_by": gb})
            items.append({"op": "project", "ops": {"s": F("_size")}, "group_by": gb})
            items.append({"op": "project", "ops": {"s": M("sum", V(1))}, "group_by": gb})
            items.append({"op": "project", "ops": {"s": M("sum", C(A)), "t": M("max", C(B))}, "group_by": gb})
    else:
        for gb in groups:
            items.append({"op": "project", "ops": {"s": F("_size")}, "group_by": gb})
    if K:
        items.append({"op": "project", "ops": {}, "group_by": [K[0]]})
    if K and len(N) > 1:
        # two group keys (a string key and a numeric one): later steps can drop one of them
        items.append({"op": "project", "ops": {"s": M("sum", C(N[1]))}, "group_by": [K[0], N[0]]})
        items.append({"op": "project", "ops": {"s": F("_size")}, "group_by": [N[0], K[0]]})
        items.append({"op": "project", "ops": {}, "group_by": [K[0], N[0]]})
    # drop items whose output name collides with a group column
    return [it for it in items if not (set(it["ops"]) & set(it["group_by"]))]


def select_rows_items(cols, roles):
    K, N = _pick(cols, roles)
    items = []
    if N:
        A = N[0]
        items.append({"op": "select_rows", "expr": O(">", C(A), V(1))})
        items.append({"op": "select_rows", "expr": M("is_null", C(N[-1]))})
        if len(N) > 1:
            B = N[1]
            items.append({"op": "select_rows", "expr": O(">", C(B), V(1))})
            items.append({"op": "select_rows", "expr": O("==", C(A), C(B))})
            items.append({"op": "select_rows", "expr": O("!=", C(A), C(B))})
            items.append({"op": "select_rows", "expr": O("and", O(">", C(A), V(1)), O("<", C(B), V(2)))})
    if K:
        items.append({"op": "select_rows", "expr": O("==", C(K[0]), V("a"))})
    return items


def column_items(cols, roles):
    items = []
    cols = list(cols)
    for c in cols:
        items.append({"op": "select_columns", "columns": [c]})
    if len(cols) >= 2:
        for i in range(len(cols)):
            for j in range(len(cols)):
                if i != j and (i < 2 or j < 2):
                    items.append({"op": "select_columns", "columns": [cols[i], cols[j]]})
    if len(cols) >= 2:
        for c in cols:
            items.append({"op": "drop_columns", "columns": [c]})
    K, N = _pick(cols, roles)
    if N:
        A = N[0]
        nn = _new(cols, A + "r")
        items.append({"op": "rename_columns", "map": {nn: A}})
        items.append({"op": "map_columns", "map": {A: nn}})
        if len(N) > 1:
            B = N[1]
            items.append({"op": "rename_columns", "map": {A: B, B: A}})
            items.append({"op": "map_columns", "map": {A: B, B: A}})
            items.append({"op": "map_columns", "map": {A: nn, B: None}})
            # renamed to the name of the column that is deleted in the same step
            items.append({"op": "map_columns", "map": {A: B, B: None}})
        if len(cols) >= 2:
            items.append({"op": "map_columns", "map": {A: None}})
    return items


def order_items(cols, roles):
    K, N = _pick(cols, roles)
    items = []
    keys = []
    if N:
        keys.append([N[0]])
        if len(N) > 1:
            keys.append([N[1]])
        if K:
            keys.append([K[0], N[0]])
    elif K:
        keys.append([K[0]])
    for ks in keys:
        for rv in ([], list(ks)):
            for lim in (None, 1, 2):
                items.append({"op": "order_rows", "columns": ks, "reverse": rv, "limit": lim})
    if len(N) > 1:
        # two order columns listed against the table's column order, one of them reversed
        for lim in (None, 2):
            items.append({"op": "order_rows", "columns": [N[1], N[0]], "reverse": [], "limit": lim})
            items.append({"op": "order_rows", "columns": [N[1], N[0]], "reverse": [N[0]], "limit": lim})
    if keys:
        # a limit of zero is legal (and falsy)
        items.append({"op": "order_rows", "columns": keys[0], "reverse": [], "limit": 0})
    return items


E_HIST = {"table": "e", "steps": []}
E1_HIST = {"table": "e", "steps": [{"op": "extend", "ops": {"w": O("+", C("w"), V(1))}}]}
E2_HIST = {"table": "e", "steps": [{"op": "select_rows", "expr": O(">", C("w"), V(10))}]}
E3_HIST = {"table": "e", "steps": [{"op": "project", "ops": {"w": M("max", C("w"))}, "group_by": ["g"]}]}


E4_HIST = {"table": "e", "steps": [{"op": "rename_columns", "map": {"k": "g"}}]}


def join_items(cols, roles, depth, jointypes=("INNER", "LEFT", "RIGHT", "FULL", "CROSS"), rights=None, self_join=True):
    K, N = _pick(cols, roles)
    items = []
    default_rights = rights is None
    if rights is None:
        rights = [E_HIST, E1_HIST]
    for b in rights:
        bcols = result_columns(b)
        common_keys = [k for k in K if k in bcols]
        for jt in jointypes:
            if jt == "CROSS":
                items.append({"op": "natural_join", "b": b, "on": [], "jointype": jt})
                continue
            if common_keys:
                items.append({"op": "natural_join", "b": b, "on": [common_keys[0]], "jointype": jt})
        if common_keys and b is rights[0]:
            items.append({"op": "natural_join", "b": b, "on": [[common_keys[0], common_keys[0]]], "jointype": "LEFT"})
            items.append({"op": "natural_join", "b": b, "on": [], "jointype": "LEFT"})
            items.append({"op": "natural_join", "b": b, "on": [], "jointype": "INNER"})
    if default_rights and len(N) > 1 and "w" not in cols:
        # the left key N[1] is matched to the right column named like the left column N[0] (which the left keeps as data)
        e5 = {"table": "e", "steps": [{"op": "rename_columns", "map": {N[0]: "w"}}]}
        items.append({"op": "natural_join", "b": e5, "on": [[N[1], N[0]]], "jointype": "LEFT"})
    if default_rights and K and "k" not in cols:
        # differently named keys: the right key column stays in the result
        for jt in jointypes:
            if jt != "CROSS":
                items.append({"op": "natural_join", "b": E4_HIST, "on": [[K[0], "k"]], "jointype": jt})
    if self_join and depth >= 1 and K:
        # the state's own earlier prefix, as the *same object* (shared sub-DAG)
        for p in sorted({0, depth - 1}):
            for jt in ("LEFT", "FULL"):
                items.append({"op": "natural_join", "b": {"prefix": p}, "on": [K[0]], "jointype": jt})
    return items


def concat_items(cols, roles, depth):
    items = []
    if set(cols) == set(TABLES["d"]):
        dh = {"table": "d", "steps": []}
        items.append({"op": "concat_rows", "b": dh, "id_column": "src", "a_name": "a", "b_name": "b"})
        items.append({"op": "concat_rows", "b": dh, "id_column": None})
        items.append({"op": "concat_rows", "b": {"table": "d", "steps": [{"op": "select_rows", "expr": O(">", C("x"), V(1))}]}, "id_column": "src", "a_name": "left", "b_name": "right"})
    if depth >= 1:
        items.append({"op": "concat_rows", "b": {"prefix": depth}, "id_column": "src"})
    return items


UNPIVOT = {
    "blocks_in": None,
    "blocks_out": {"control": {"k": ["x", "y"], "v": ["x", "y"]}, "record_keys": ["g"], "control_table_keys": ["k"]},
}
PIVOT = {
    "blocks_in": {"control": {"k": ["x", "y"], "v": ["x", "y"]}, "record_keys": ["g"], "control_table_keys": ["k"]},
    "blocks_out": None,
}


def cdata_items(cols, roles):
    items = []
    if {"g", "x", "y"} <= set(cols):
        items.append({"op": "convert_records", "map": UNPIVOT})
    if {"g", "k", "v"} <= set(cols):
        items.append({"op": "convert_records", "map": PIVOT})
    return items


def core_menu(cols, roles, depth, hist=None):
    items = []
    items += extend_items(cols, roles)
    items += window_items(cols, roles)
    items += project_items(cols, roles)
    items += select_rows_items(cols, roles)
    items += column_items(cols, roles)
    items += order_items(cols, roles)
    items += join_items(cols, roles, depth)
    items += concat_items(cols, roles, depth)
    items += cdata_items(cols, roles)
    return items


def _fn_of(item):
    e = list(item["ops"].values())[0] if item.get("ops") else None
    return e[1] if e and e[0] in ("m", "f") else None


def core_menu_q(cols, roles, depth, hist=None):
    """quick-tier menu: the full core menu for every step but the first, which uses a thinner selection
    (one representative per shape); the depth-2 state space is thin x full instead of full x full"""
    if depth != 0:
        return core_menu(cols, roles, depth, hist)
    items = []
    ext = extend_items(cols, roles)
    items += ext[:3] + ext[4:6] + ext[-5:]
    for w in window_items(cols, roles):
        fn = _fn_of(w)
        ordered = bool(w.get("order_by"))
        if not ordered and fn in ("sum", "_size", "count") and not (list(w["ops"].values())[0][0] == "m" and list(w["ops"].values())[0][2][0] == "v"):
            items.append(w)
        elif ordered and (fn in ("cumsum", "shift") and not w.get("reverse")):
            items.append(w)
        elif ordered and fn == "_row_number":
            items.append(w)
    for p in project_items(cols, roles):
        fn = _fn_of(p)
        if len(p["ops"]) != 1 or fn in ("sum", "count", "_size") or len(p.get("group_by") or []) > 1:
            items.append(p)
    items += select_rows_items(cols, roles)[:4]
    ci = column_items(cols, roles)
    items += [c for c in ci if c["op"] != "select_columns"] + [c for c in ci if c["op"] == "select_columns"][:4]
    for o in order_items(cols, roles):
        if o["limit"] in (None, 1, 0) and (len(o["columns"]) > 1 or o["columns"] == order_items(cols, roles)[0]["columns"]):
            items.append(o)
    for j in join_items(cols, roles, depth):
        b = j["b"]
        if b is E1_HIST:
            continue
        if b is E4_HIST and j["jointype"] not in ("LEFT", "FULL"):
            continue
        items.append(j)
    items += concat_items(cols, roles, depth)[:2]
    items += cdata_items(cols, roles)
    return items


# ---------------------------------------------------------------------------------------
# role bookkeeping (explorer-side typing so menus stay well-typed)


def expr_role(e, roles):
    t = e[0]
    if t == "c":
        return roles.get(e[1], "n")
    if t == "v":
        v = e[1]
        if isinstance(v, bool):
            return "b"
        if isinstance(v, str):
            return "s"
        return "n"
    if t == "u":
        return "b" if e[1] == "not" else "n"
    if t == "o":
        if e[1] in ("==", "!=", "<", "<=", ">", ">=", "and", "or"):
            return "b"
        return "n"
    if t == "m":
        if e[1] in ("is_null", "is_bad", "is_nan", "is_inf", "is_in"):
            return "b"
        if e[1] in ("if_else", "where"):
            return expr_role(e[3], roles)
        if e[1] in ("coalesce", "maximum", "minimum", "fmax", "fmin", "max", "min", "first", "last", "shift", "any_value", "cummax", "cummin"):
            return expr_role(e[2], roles)
        return "n"
    return "n"


def result_columns(hist):
    if "columns" in hist:
        cols, roles = list(hist["columns"]), dict(hist.get("roles") or {c: "n" for c in hist["columns"]})
    else:
        cols, roles = list(TABLES[hist["table"]]), dict(TABLE_ROLES[hist["table"]])
    states = [(cols, roles)]
    for st in hist["steps"]:
        cols, roles = step_columns(st, cols, roles, states)
        states.append((cols, roles))
    return cols


def result_roles(hist):
    if "columns" in hist:
        cols, roles = list(hist["columns"]), dict(hist.get("roles") or {c: "n" for c in hist["columns"]})
    else:
        cols, roles = list(TABLES[hist["table"]]), dict(TABLE_ROLES[hist["table"]])
    states = [(cols, roles)]
    for st in hist["steps"]:
        cols, roles = step_columns(st, cols, roles, states)
        states.append((cols, roles))
    return cols, roles


def step_columns(st, cols, roles, states):
    """Column list and roles after a step (mirror of the documented column rules)."""
    op = st["op"]
    cols = list(cols)
    roles = dict(roles)
    if op == "extend":
        for k, e in st["ops"].items():
            r = expr_role(e, roles)
            if k not in cols:
                cols.append(k)
            roles[k] = r
        return cols, roles
    if op == "project":
        gb = list(st.get("group_by") or [])
        nr = {g: roles[g] for g in gb}
        nc = list(gb)
        for k, e in st["ops"].items():
            nc.append(k)
            nr[k] = expr_role(e, roles)
        return nc, nr
    if op in ("select_rows", "order_rows"):
        return cols, roles
    if op == "select_columns":
        return list(st["columns"]), {c: roles[c] for c in st["columns"]}
    if op == "drop_columns":
        nc = [c for c in cols if c not in st["columns"]]
        return nc, {c: roles[c] for c in nc}
    if op == "rename_columns":
        rev = {old: new for new, old in st["map"].items()}
        return [rev.get(c, c) for c in cols], {rev.get(c, c): roles[c] for c in cols}
    if op == "map_columns":
        m = st["map"]
        keep = [c for c in cols if not (c in m and m[c] is None)]
        return [m.get(c, c) for c in keep], {m.get(c, c): roles[c] for c in keep}
    if op in ("natural_join", "concat_rows"):
        b = st["b"]
        if "prefix" in b:
            bc, br = states[b["prefix"]]
            for st2 in b.get("steps", []):
                bc, br = step_columns(st2, bc, br, states)
        else:
            bc, br = result_roles(b)
        if op == "natural_join":
            nc = cols + [c for c in bc if c not in cols]
            nr = dict(br)
            nr.update(roles)
            return nc, nr
        idc = st.get("id_column", "source_name")
        if idc is not None:
            cols.append(idc)
            roles[idc] = "s"
        return cols, roles
    if op == "convert_records":
        m = st["map"]
        c, r = cols, roles
        if m.get("blocks_in") is not None:
            s = m["blocks_in"]
            ct = s["control"]
            vcols = [x for x in ct if x not in s["control_table_keys"]]
            nrow = len(ct[vcols[0]])
            c = list(s["record_keys"]) + [ct[v][i] for i in range(nrow) for v in vcols]
            r = {x: (roles.get(x, "n") if x in s["record_keys"] else "n") for x in c}
        if m.get("blocks_out") is not None:
            s = m["blocks_out"]
            ct = s["control"]
            vcols = [x for x in ct if x not in s["control_table_keys"]]
            c2 = list(s["record_keys"]) + list(s["control_table_keys"]) + vcols
            r2 = {x: r.get(x, "n") for x in s["record_keys"]}
            for x in s["control_table_keys"]:
                r2[x] = "s"
            for x in vcols:
                r2[x] = "n"
            c, r = c2, r2
        return c, r
    raise ValueError(op)
