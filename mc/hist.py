"""
Histories (replayable JSON step lists), expression ASTs and their DSL rendering, building the
real pipeline from a history, and the explorer's canonical structural dump of a pipeline.

Expression AST (JSON-able lists):
  ["c", name]                 column
  ["v", value]                literal (int/float/str/bool/None)
  ["o", op, a, b]             inline binary operator  (a op b)
  ["u", op, a]                inline unary operator   (op a)     op in {"-", "not"}
  ["m", name, a, *args]       method call             (a).name(args)
  ["f", name]                 zero-argument function  name()
"""

import json

TABLES = {
    "d": ["g", "x", "y"],
    "e": ["g", "w", "y"],
}
# roles: k = string key, n = numeric (int or float, nullable), b = boolean, s = string label
TABLE_ROLES = {
    "d": {"g": "k", "x": "n", "y": "n"},
    "e": {"g": "k", "w": "n", "y": "n"},
}


def C(n):
    return ["c", n]


def V(v):
    return ["v", v]


def O(op, a, b):
    return ["o", op, a, b]


def U(op, a):
    return ["u", op, a]


def M(name, a, *args):
    return ["m", name, a] + list(args)


def F(name):
    return ["f", name]


def render(e):
    """AST -> data_algebra expression text, fully parenthesised."""
    t = e[0]
    if t == "c":
        return e[1]
    if t == "v":
        return repr(e[1])
    if t == "o":
        return "(" + render(e[2]) + " " + e[1] + " " + render(e[3]) + ")"
    if t == "u":
        if e[1] == "not":
            return "(not " + render(e[2]) + ")"
        return "(" + e[1] + render(e[2]) + ")"
    if t == "m":
        a = render(e[2])
        if e[2][0] != "c":
            a = "(" + a + ")"
        return a + "." + e[1] + "(" + ", ".join(render(x) for x in e[3:]) + ")"
    if t == "f":
        return e[1] + "()"
    raise ValueError(e)


def expr_columns(e, acc=None):
    if acc is None:
        acc = set()
    t = e[0]
    if t == "c":
        acc.add(e[1])
    elif t == "o":
        expr_columns(e[2], acc)
        expr_columns(e[3], acc)
    elif t == "u":
        expr_columns(e[2], acc)
    elif t == "m":
        for x in e[2:]:
            expr_columns(x, acc)
    return acc


def rename_expr(e, cmap):
    t = e[0]
    if t == "c":
        return ["c", cmap.get(e[1], e[1])]
    if t == "v" or t == "f":
        return e
    if t == "o":
        return ["o", e[1], rename_expr(e[2], cmap), rename_expr(e[3], cmap)]
    if t == "u":
        return ["u", e[1], rename_expr(e[2], cmap)]
    if t == "m":
        return ["m", e[1]] + [rename_expr(x, cmap) for x in e[2:]]
    raise ValueError(e)


# ---------------------------------------------------------------------------------------
# building the real pipeline


def table_description(name, columns=None):
    from data_algebra.data_ops import TableDescription

    if columns is None:
        columns = TABLES[name]
    return TableDescription(table_name=name, column_names=list(columns))


def record_map_from_spec(spec):
    """spec: {"blocks_in": rs|None, "blocks_out": rs|None}; rs = {"control": {col: [..]}, "record_keys": [...], "control_table_keys": [...]}"""
    import pandas
    import data_algebra.cdata as cdata

    def rs(s):
        if s is None:
            return None
        return cdata.RecordSpecification(
            pandas.DataFrame(s["control"]),
            record_keys=s["record_keys"],
            control_table_keys=s["control_table_keys"],
            strict=s.get("strict", True),
        )

    return cdata.RecordMap(blocks_in=rs(spec.get("blocks_in")), blocks_out=rs(spec.get("blocks_out")), strict=spec.get("strict", True))


def to_term(e):
    """AST -> expression object built through the Term API (no parser involved)"""
    import data_algebra.expr_rep as er

    t = e[0]
    if t == "c":
        return er.ColumnReference(e[1])
    if t == "v":
        return er.Value(e[1])
    if t == "u":
        a = to_term(e[2])
        return -a if e[1] == "-" else (a == er.Value(False))
    if t == "o":
        a, b = to_term(e[2]), to_term(e[3])
        import operator

        fns = {"+": operator.add, "-": operator.sub, "*": operator.mul, "/": operator.truediv, "//": operator.floordiv, "%": operator.mod, "**": operator.pow,
               "==": operator.eq, "!=": operator.ne, "<": operator.lt, "<=": operator.le, ">": operator.gt, ">=": operator.ge}
        if e[1] in fns:
            return fns[e[1]](a, b)
        return er.kop_expr(e[1], [a, b], inline=True)
    if t == "m":
        a = to_term(e[2])
        return getattr(a, e[1])(*[to_term(x) for x in e[3:]])
    if t == "f":
        return er.Expression(op=e[1], args=[])
    raise ValueError(e)


def apply_step(ops, step, prefixes=None, tables=None):
    """Apply one step record to a live pipeline through the public builder API."""
    op = step["op"]
    rend = to_term if step.get("as_terms") else render
    if op == "extend":
        kw = {}
        for k in ("partition_by", "order_by", "reverse"):
            if step.get(k) is not None:
                kw[k] = step[k]
        return ops.extend({k: rend(v) for k, v in step["ops"].items()}, **kw)
    if op == "project":
        return ops.project({k: rend(v) for k, v in step["ops"].items()}, group_by=step.get("group_by") or [])
    if op == "select_rows":
        return ops.select_rows(rend(step["expr"]))
    if op == "select_columns":
        return ops.select_columns(list(step["columns"]))
    if op == "drop_columns":
        return ops.drop_columns(list(step["columns"]))
    if op == "rename_columns":
        return ops.rename_columns(dict(step["map"]))
    if op == "map_columns":
        return ops.map_columns(dict(step["map"]))
    if op == "order_rows":
        return ops.order_rows(list(step["columns"]), reverse=step.get("reverse"), limit=step.get("limit"))
    if op in ("natural_join", "concat_rows"):
        b = step["b"]
        if isinstance(b, dict) and "prefix" in b:
            # the state's own earlier prefix as the same object, optionally continued by further steps
            bops = prefixes[b["prefix"]]
            for st2 in b.get("steps", []):
                bops = apply_step(bops, st2, prefixes=prefixes, tables=tables)
        else:
            bops = build(b, tables=tables)
        if op == "natural_join":
            on = step.get("on")
            if on is not None:
                on = [tuple(o) if isinstance(o, list) else o for o in on]
            kw = {}
            if step.get("check"):
                kw["check_all_common_keys_in_equi_spec"] = True
            if step.get("use_by"):
                return ops.natural_join(bops, by=on, jointype=step["jointype"], **kw)
            return ops.natural_join(bops, on=on, jointype=step["jointype"], **kw)
        kw = {}
        if "id_column" in step:
            kw["id_column"] = step["id_column"]
        if "a_name" in step:
            kw["a_name"] = step["a_name"]
        if "b_name" in step:
            kw["b_name"] = step["b_name"]
        return ops.concat_rows(bops, **kw)
    if op == "convert_records":
        return ops.convert_records(record_map_from_spec(step["map"]))
    raise ValueError(op)


def build(hist, tables=None, want_prefixes=False):
    """history -> real ViewRepresentation (raises whatever the builder raises)."""
    cols = None
    if "columns" in hist:
        cols = hist["columns"]
    elif tables is not None and hist["table"] in tables:
        cols = tables[hist["table"]]
    ops = table_description(hist["table"], cols)
    prefixes = [ops]
    for st in hist["steps"]:
        ops = apply_step(ops, st, prefixes=prefixes, tables=tables)
        prefixes.append(ops)
    if want_prefixes:
        return ops, prefixes
    return ops


def hist_tables(hist, acc=None):
    """Names of the tables a history reads."""
    if acc is None:
        acc = []
    if hist["table"] not in acc:
        acc.append(hist["table"])
    for st in hist["steps"]:
        b = st.get("b")
        if isinstance(b, dict) and "table" in b:
            hist_tables(b, acc)
    return acc


def hist_key(hist):
    return json.dumps(hist, sort_keys=True)


def short(hist):
    """Compact one-line rendering of a history for samples and messages."""
    parts = [hist["table"]]
    for st in hist["steps"]:
        op = st["op"]
        if op in ("extend", "project"):
            a = ", ".join(f"{k}: {render(v)}" for k, v in st["ops"].items())
            extra = "".join(
                f", {k}={st[k]}" for k in ("partition_by", "order_by", "reverse", "group_by") if st.get(k) not in (None, [])
            )
            parts.append(f"{op}({{{a}}}{extra})")
        elif op == "select_rows":
            parts.append(f"select_rows({render(st['expr'])})")
        elif op in ("natural_join", "concat_rows"):
            b = st["b"]
            bs = (f"<prefix {b['prefix']}>" + "".join(" . " + short({"table": "", "steps": [x]})[3:] for x in b.get("steps", []))) if "prefix" in b else short(b)
            extra = ", ".join(f"{k}={st[k]!r}" for k in st if k not in ("op", "b"))
            parts.append(f"{op}({bs}, {extra})")
        elif op == "convert_records":
            parts.append("convert_records(..)")
        else:
            extra = ", ".join(f"{k}={st[k]!r}" for k in st if k != "op")
            parts.append(f"{op}({extra})")
    return " . ".join(parts)


# ---------------------------------------------------------------------------------------
# canonical structural dump (finer than == and than to_python on purpose)


def _dump_term(t):
    import data_algebra.expr_rep as er

    if isinstance(t, er.Value):
        return ("V", type(t.value).__name__, repr(t.value))
    if isinstance(t, er.ColumnReference):
        return ("C", t.column_name)
    if isinstance(t, er.Expression):
        params = None
        if t.params is not None:
            params = tuple(sorted((k, repr(v)) for k, v in t.params.items()))
        return ("E", t.op, bool(t.inline), bool(t.method), params, tuple(_dump_term(a) for a in t.args))
    if isinstance(t, er.ListTerm):
        return ("L", repr(t.value))
    if isinstance(t, er.DictTerm):
        return ("D", repr(t.value))
    return ("?", repr(t))


def _dump_value(v):
    import data_algebra.expr_rep as er

    if isinstance(v, er.PreTerm):
        return _dump_term(v)
    if isinstance(v, dict):
        return ("dict",) + tuple((repr(k), _dump_value(x)) for k, x in v.items())
    if isinstance(v, (list, tuple)):
        return (type(v).__name__,) + tuple(_dump_value(x) for x in v)
    if isinstance(v, (set, frozenset)):
        return ("set",) + tuple(sorted(repr(x) for x in v))
    if v is None or isinstance(v, (bool, int, float, str)):
        return (type(v).__name__, repr(v))
    return ("obj", type(v).__name__, repr(v))


def canon(ops):
    """Structural dump including DAG sharing (nodes numbered by first DFS visit)."""
    ids = {}
    out = []

    def visit(n):
        if id(n) in ids:
            return ids[id(n)]
        k = len(ids)
        ids[id(n)] = k
        srcs = tuple(visit(s) for s in n.sources)
        attrs = []
        for a, v in sorted(n.__dict__.items()):
            if a in ("sources", "head", "nrows", "limit_was", "sql_meta"):
                continue
            attrs.append((a, _dump_value(v)))
        out.append((k, type(n).__name__, tuple(attrs), srcs))
        return k

    visit(ops)
    return repr(out)
