"""
Common runner pieces: run context, evidence writing, violation / known-finding protocol,
worker pool.  Nothing here knows about data_algebra beyond asserting it is imported from /repo.
"""

import hashlib
import json
import multiprocessing
import os
import sys
import time
import traceback

VERIF = os.path.dirname(os.path.dirname(os.path.abspath(__file__)))
# scratch runs against a mutated copy of the repository (tools/try_mutant.sh) redirect both
EVIDENCE_DIR = os.environ.get("VERIF_EVIDENCE_DIR") or os.path.join(VERIF, "evidence")
REPLAY_DIR = os.environ.get("VERIF_REPLAY_DIR") or os.path.join(VERIF, "replays")
FINDINGS_FILE = os.path.join(VERIF, "known_findings.json")


def assert_repo_import():
    import data_algebra

    f = os.path.realpath(data_algebra.__file__)
    repo = os.path.realpath(os.environ.get("VERIF_REPO", "/repo"))
    if not f.startswith(repo + os.sep):
        raise SystemExit(f"data_algebra imported from {f}, expected under {repo}")


def jsonable(x):
    """Best-effort conversion of explored cases to JSON-able structures."""
    import math

    if x is None or isinstance(x, (bool, int, str)):
        return x
    if isinstance(x, float):
        if math.isnan(x):
            return "NaN"
        if math.isinf(x):
            return "inf" if x > 0 else "-inf"
        return x
    if isinstance(x, dict):
        return {str(k): jsonable(v) for k, v in x.items()}
    if isinstance(x, (list, tuple)):
        return [jsonable(v) for v in x]
    if isinstance(x, (set, frozenset)):
        return sorted([jsonable(v) for v in x], key=repr)
    return repr(x)


def load_findings():
    with open(FINDINGS_FILE) as f:
        doc = json.load(f)
    return doc["findings"]


class Run:
    """One check run: counters, samples, violations, known-finding hits, evidence."""

    def __init__(self, prop, tier, level="model_checking"):
        self.prop = prop
        self.tier = tier
        self.level = level
        self.seed = int(os.environ.get("VERIF_SEED", "0") or 0)
        self.t0 = time.time()
        self.cov = {}
        self.samples = []
        self.violations = []  # list of dict
        self.known_hits = {}  # finding id -> count
        self.known_example = {}
        self.assumptions = []
        self.outcomes = set()
        self.max_violation_files = 10
        fs = load_findings()
        self.open_findings = {
            f["id"]: f for f in fs if f["status"] == "open" and prop in f["properties"]
        }
        self.all_findings = {f["id"]: f for f in fs}

    # counters -------------------------------------------------------
    def count(self, key, n=1):
        self.cov[key] = self.cov.get(key, 0) + n

    def set(self, key, v):
        self.cov[key] = v

    def sample(self, s, limit=5):
        if len(self.samples) < limit:
            self.samples.append(jsonable(s))

    def outcome(self, o):
        if len(self.outcomes) < 100000:
            self.outcomes.add(o)

    # findings -------------------------------------------------------
    def is_open(self, finding_id):
        return finding_id in self.open_findings

    def known(self, finding_id, example=None, n=1):
        """Record a hit of an open known finding (caller has checked is_open)."""
        assert finding_id in self.open_findings, finding_id
        self.known_hits[finding_id] = self.known_hits.get(finding_id, 0) + n
        if example is not None and finding_id not in self.known_example:
            self.known_example[finding_id] = jsonable(example)

    def violation(self, case, what):
        """Record a violation; case must be JSON-able and replayable."""
        self.violations.append({"what": what, "case": jsonable(case)})

    def merge(self, part):
        """Merge a worker's partial result (dict produced by Part.dump())."""
        for k, v in part["cov"].items():
            self.count(k, v)
        for s in part["samples"]:
            self.sample(s)
        for v in part["violations"]:
            self.violations.append(v)
        for k, n in part["known"].items():
            self.known_hits[k] = self.known_hits.get(k, 0) + n
        for k, e in part["known_example"].items():
            self.known_example.setdefault(k, e)
        for o in part["outcomes"]:
            self.outcome(o)

    # finish ---------------------------------------------------------
    def finish(self, exhaustive=True, rule="", extra=None):
        wall = time.time() - self.t0
        os.makedirs(EVIDENCE_DIR, exist_ok=True)
        lines = []
        for fid in sorted(self.known_hits):
            f = self.open_findings[fid]
            lines.append(
                f"KNOWN-FINDING: property={self.prop} {fid}: {f['what']} (hits={self.known_hits[fid]})"
            )
        vpaths = []
        seen = set()
        for v in self.violations:
            body = json.dumps(
                {"property": self.prop, "what": v["what"], "case": v["case"]},
                sort_keys=True,
                indent=1,
            )
            sha = hashlib.sha1(body.encode()).hexdigest()[:16]
            if sha in seen:
                continue
            seen.add(sha)
            if len(vpaths) >= self.max_violation_files:
                continue
            d = os.path.join(REPLAY_DIR, self.prop)
            os.makedirs(d, exist_ok=True)
            p = os.path.join(d, sha + ".json")
            with open(p, "w") as f:
                f.write(body)
            vpaths.append((p, v["what"]))
        if os.environ.get("VERIF_DEBUG"):
            self._debug_buckets()
        if os.environ.get("VERIF_DUMP"):
            with open(os.environ["VERIF_DUMP"], "w") as f:
                json.dump(self.violations, f)
        cov = dict(self.cov)
        cov.setdefault("evaluations", cov.get("traces_validated_against_impl", 0))
        cov["samples"] = self.samples if self.samples else ["(none)"]
        cov["rule"] = rule
        cov["exhaustive"] = bool(exhaustive)
        cov["distinct_outcomes"] = len(self.outcomes)
        cov.setdefault("distinct_nontrivial", len(self.outcomes))
        cov["known_finding_hits"] = dict(self.known_hits)
        cov["known_finding_examples"] = self.known_example
        stale = [
            fid for fid in self.open_findings if fid not in self.known_hits
        ]
        cov["open_findings_not_hit_in_this_run"] = sorted(stale)
        if extra:
            cov.update(jsonable(extra))
        ev = {
            "property_id": self.prop,
            "tier": self.tier,
            "seed": self.seed,
            "level": self.level,
            "coverage": cov,
            "assumptions": self.assumptions,
            "wall_s": round(wall, 3),
            "violations": len(seen),
        }
        with open(os.path.join(EVIDENCE_DIR, self.prop + ".json"), "w") as f:
            json.dump(ev, f, indent=1, sort_keys=True)
        for ln in lines:
            print(ln)
        for p, what in vpaths:
            print(f"VIOLATION property={self.prop} replay={p}")
            print(f"  # {what}")
        brief = {
            k: v
            for k, v in cov.items()
            if isinstance(v, (int, float, bool)) and not isinstance(v, str)
        }
        print(
            f"[{self.prop} {self.tier}] wall={wall:.1f}s violations={len(seen)} "
            f"known={dict(self.known_hits)} {json.dumps(brief, sort_keys=True)}"
        )
        sys.stdout.flush()
        return 1 if len(seen) > 0 else 0


def _sig(case):
    h = case.get("history") if isinstance(case, dict) else None
    if isinstance(h, dict) and "steps" in h:
        sig = [st["op"] + (":" + st["jointype"] if "jointype" in st else "") for st in h["steps"]]
    else:
        sig = []
    if isinstance(case, dict):
        for k, v in case.items():
            if isinstance(v, dict) and "raise" in v:
                sig.append(f"{k}!{v['raise']}")
    return tuple(sig)


def _debug_buckets(self):
    import collections

    b = collections.defaultdict(list)
    for v in self.violations:
        b[_sig(v["case"])].append(v)
    for sig, vs in sorted(b.items(), key=lambda kv: -len(kv[1]))[:40]:
        print("=====", sig, len(vs))
        c = vs[0]["case"]
        print("   ", vs[0]["what"][:300])
        if isinstance(c, dict):
            for k, val in c.items():
                if k == "history":
                    continue
                if k == "data" and isinstance(val, dict):
                    val = {kk: (t.get("rows") if isinstance(t, dict) else t) for kk, t in val.items()}
                print("     ", k, str(val)[:400])


Run._debug_buckets = _debug_buckets


class Part:
    """Worker-side accumulator with the same surface as Run, minus finishing."""

    def __init__(self, open_ids):
        self.cov = {}
        self.samples = []
        self.violations = []
        self.known_hits = {}
        self.known_example = {}
        self.outcomes = set()
        self.open_ids = set(open_ids)

    def count(self, key, n=1):
        self.cov[key] = self.cov.get(key, 0) + n

    def sample(self, s, limit=3):
        if len(self.samples) < limit:
            self.samples.append(jsonable(s))

    def outcome(self, o):
        if len(self.outcomes) < 20000:
            self.outcomes.add(o)

    def is_open(self, fid):
        return fid in self.open_ids

    def known(self, fid, example=None, n=1):
        assert fid in self.open_ids, fid
        self.known_hits[fid] = self.known_hits.get(fid, 0) + n
        if example is not None and fid not in self.known_example:
            self.known_example[fid] = jsonable(example)

    def violation(self, case, what):
        if len(self.violations) < 50:
            self.violations.append({"what": what, "case": jsonable(case)})
        self.count("violating_cases")

    def dump(self):
        return {
            "cov": self.cov,
            "samples": self.samples,
            "violations": self.violations,
            "known": self.known_hits,
            "known_example": self.known_example,
            "outcomes": list(self.outcomes),
        }


def n_workers():
    try:
        return max(1, min(16, len(os.sched_getaffinity(0))))
    except Exception:
        return max(1, min(16, os.cpu_count() or 1))


def _guard(fn_args):
    fn, args = fn_args
    try:
        return ("ok", fn(*args))
    except Exception:
        return ("err", traceback.format_exc())


def pmap(fn, arglist, workers=None, chunksize=1):
    """
    Run fn(*args) for args in arglist on a pool of long-lived worker processes.
    A worker exception is a hard error of the harness (not a property verdict).
    Yields results in submission order.
    """
    arglist = list(arglist)
    if workers is None:
        workers = n_workers()
    if workers <= 1 or len(arglist) <= 1:
        for a in arglist:
            st, r = _guard((fn, a))
            if st == "err":
                raise RuntimeError("harness worker failed:\n" + r)
            yield r
        return
    ctx = multiprocessing.get_context("fork")
    with ctx.Pool(workers) as pool:
        for st, r in pool.imap(_guard, [(fn, a) for a in arglist], chunksize=chunksize):
            if st == "err":
                pool.terminate()
                raise RuntimeError("harness worker failed:\n" + r)
            yield r


def rotate(lst, seed):
    """Deterministic rotation of the work list by VERIF_SEED (order only, never content)."""
    lst = list(lst)
    if not lst:
        return lst
    k = seed % len(lst)
    return lst[k:] + lst[:k]


def chunks(lst, n):
    lst = list(lst)
    return [lst[i : i + n] for i in range(0, len(lst), n)]
