"""
R - the deliberately boring reference interpreter (DESIGN 2.5).

Plain Python over lists of dict rows, None for null.  It interprets the *history* (the
unsimplified user-level step list), never the built pipeline, so builder rewrites cannot
leak into it.

  R(conv, dev).eval(hist, data) -> ("ok", cols, rows) | raises Ambiguous | raises Unspecified

conv: destination convention for the differences the properties accept
      "pandas": sum/count of no non-null values -> 0      "sql": -> NULL
dev:  set of named deviation switches reproducing *known defects* exactly (see known_findings.json)
"""

import math
import statistics


class Ambiguous(Exception):
    """The case has no determined answer (ties in an order the result depends on)."""


class Unspecified(Exception):
    """The documented semantics do not settle this case (or R does not model the construct)."""


AGG_UNORDERED = {"sum", "max", "min", "mean", "count", "size", "std", "var", "median", "nunique", "any_value", "all", "any"}
AGG_ORDERED = {"cumsum", "cummax", "cummin", "cumprod", "cumcount", "shift", "rank", "first", "last", "bfill", "ffill"}
ZERO_ARG = {"_size", "_count", "_row_number", "_ngroup"}


def is_agg_expr(e):
    if e[0] == "m" and e[1] in (AGG_UNORDERED | AGG_ORDERED):
        return True
    if e[0] == "f" and e[1] in ZERO_ARG:
        return True
    return False


def _isnum(v):
    return isinstance(v, (int, float)) and not isinstance(v, bool)


class R:
    def __init__(self, conv="sql", dev=()):
        assert conv in ("pandas", "sql", "polars")
        self.conv = conv
        self.dev = frozenset(dev)
        self.triggered = set()  # deviation switches whose branch was actually taken

    def d(self, name):
        if name in self.dev:
            return True
        return False

    def hit(self, name):
        self.triggered.add(name)

    # ------------------------------------------------------------------ scalar expressions
    def ev(self, e, row):
        t = e[0]
        if t == "c":
            return row[e[1]]
        if t == "v":
            return e[1]
        if t == "u":
            a = self.ev(e[2], row)
            if e[1] == "-":
                return None if a is None else -a
            if e[1] == "not":
                if a is None:
                    if self.d("pandas.nan_logic"):
                        self.hit("pandas.nan_logic")
                        return True
                    return None
                return not a
            raise Unspecified(e[1])
        if t == "o":
            return self.binop(e[1], self.ev(e[2], row), self.ev(e[3], row))
        if t == "m":
            args = [self.ev(x, row) for x in e[2:]]
            return self.method(e[1], args)
        raise Unspecified(str(e))

    def binop(self, op, a, b):
        if op in ("and", "or"):
            if (a is None or b is None) and self.d("pandas.nan_logic"):
                self.hit("pandas.nan_logic")
                a = True if a is None else a
                b = True if b is None else b
            if op == "and":
                if a is False or b is False:
                    return False
                if a is None or b is None:
                    return None
                return bool(a) and bool(b)
            if a is True or b is True:
                return True
            if a is None or b is None:
                return None
            return bool(a) or bool(b)
        if op in ("==", "!=", "<", "<=", ">", ">="):
            if a is None or b is None:
                if self.d("pandas.nan_compare"):
                    self.hit("pandas.nan_compare")
                    return op == "!="
                return None
            if op == "==":
                return a == b
            if op == "!=":
                return a != b
            if op == "<":
                return a < b
            if op == "<=":
                return a <= b
            if op == ">":
                return a > b
            return a >= b
        if a is None or b is None:
            if op == "**" and self.d("pandas.nan_power"):
                if (a is not None and a == 1) or (b is not None and b == 0):
                    self.hit("pandas.nan_power")
                    return 1.0
            return None
        if op == "+":
            return a + b
        if op == "-":
            return a - b
        if op == "*":
            return a * b
        if op == "/":
            if b == 0:
                raise Unspecified("division by zero")
            if isinstance(a, int) and isinstance(b, int) and not isinstance(a, bool) and not isinstance(b, bool):
                raise Unspecified("integer / integer follows the destination")
            return a / b
        if op == "//":
            if b == 0:
                raise Unspecified("division by zero")
            return a // b
        if op == "%":
            if b == 0:
                raise Unspecified("division by zero")
            if a < 0 or b < 0:
                raise Unspecified("% on negatives follows the destination")
            return a % b
        if op == "**":
            try:
                return a**b
            except Exception:
                raise Unspecified("power domain")
        raise Unspecified(op)

    def method(self, name, args):
        a = args[0]
        if name == "is_null":
            return a is None
        if name == "is_bad":
            return a is None or (isinstance(a, float) and (math.isnan(a) or math.isinf(a)))
        if name == "coalesce":
            return a if a is not None else args[1]
        if name == "coalesce_0":
            return a if a is not None else 0
        if name in ("maximum", "minimum"):
            b = args[1]
            if a is None or b is None:
                return None
            return max(a, b) if name == "maximum" else min(a, b)
        if name in ("fmax", "fmin"):
            b = args[1]
            if a is None:
                return b
            if b is None:
                return a
            return max(a, b) if name == "fmax" else min(a, b)
        if name == "if_else":
            if a is None:
                return None
            return args[1] if a else args[2]
        if name == "where":
            return args[1] if a is True else args[2]
        if name == "abs":
            return None if a is None else abs(a)
        if name == "is_in":
            raise Unspecified("is_in")
        raise Unspecified("method " + name)

    # ------------------------------------------------------------------ aggregation
    def agg(self, name, vals, n_rows):
        """Unordered aggregate of a list of values (nulls included) over a group of n_rows rows."""
        nn = [v for v in vals if v is not None]
        empty_null = n_rows == 0 and self.conv in ("sql", "polars")
        if name in ("size", "_size", "_count"):
            # SQL realises these as SUM(1): NULL over zero rows (destination convention of sums);
            # Polars returns an all-null row for an un-grouped project of zero rows
            if empty_null:
                return None
            return n_rows
        if name == "count":
            if empty_null:
                return None
            return len(nn)
        if name == "sum":
            if len(nn) == 0:
                if self.conv == "pandas":
                    return 0
                if self.conv == "polars":
                    return None if n_rows == 0 else 0
                return None
            return sum((int(v) if isinstance(v, bool) else v) for v in nn)
        if len(nn) == 0:
            if name in ("max", "min", "mean", "median", "std", "var", "any_value"):
                return None
            if name == "nunique":
                # a count: over zero rows Polars' un-grouped project returns its all-null row (destination convention)
                if n_rows == 0 and self.conv == "polars":
                    return None
                return 0
            raise Unspecified(name + " of nothing")
        if name == "max":
            return max(nn)
        if name == "min":
            return min(nn)
        if name == "mean":
            return sum(nn) / len(nn)
        if name == "median":
            return statistics.median(nn)
        if name == "std":
            return statistics.stdev(nn) if len(nn) > 1 else None
        if name == "var":
            return statistics.variance(nn) if len(nn) > 1 else None
        if name == "nunique":
            return len(set(nn))
        if name == "any_value":
            if len(set(nn)) > 1 or len(nn) != len(vals):
                raise Ambiguous("any_value of differing values")
            return nn[0]
        raise Unspecified("aggregate " + name)

    def _agg_arg(self, e):
        """(name, arg expr or None, extra literal args)"""
        if e[0] == "f":
            return e[1], None, []
        return e[1], e[2], [x[1] for x in e[3:]]

    # ------------------------------------------------------------------ ordering helpers
    def sort_rows(self, rows, columns, reverse, nulls="last"):
        """Stable multi-key sort. nulls: 'last' (always last), 'sqlite' (smallest value: first asc, last desc)."""
        rows = list(rows)
        rev = set(reverse or [])
        for c in reversed(list(columns)):
            desc = c in rev

            def k(r, c=c, desc=desc):
                v = r[c]
                if v is None:
                    return (0, 0)
                if isinstance(v, bool):
                    v = int(v)
                return (1, v)

            nonnull = [r for r in rows if r[c] is not None]
            nulls_ = [r for r in rows if r[c] is None]
            nonnull.sort(key=lambda r: (int(r[c]) if isinstance(r[c], bool) else r[c]), reverse=desc)
            if nulls == "last":
                rows = nonnull + nulls_
            elif nulls == "sqlite":
                rows = (nonnull + nulls_) if desc else (nulls_ + nonnull)
            else:
                raise ValueError(nulls)
        return rows

    def _key_of(self, r, columns):
        return tuple(r[c] for c in columns)

    # ------------------------------------------------------------------ steps
    def eval(self, hist, data, prefixes_out=None):
        cols, rows = self.table(hist["table"], data)
        states = [(cols, rows)]
        n = len(hist["steps"])
        for i, st in enumerate(hist["steps"]):
            cols, rows = self.step(st, cols, rows, data, states, final=(i == n - 1))
            states.append((cols, rows))
        if prefixes_out is not None:
            prefixes_out.extend(states)
        return ("ok", list(cols), [tuple(r[c] for c in cols) for r in rows])

    def table(self, name, data):
        t = data[name]
        cols = list(t["columns"])
        rows = [dict(zip(cols, r)) for r in t["rows"]]
        return cols, rows

    def eval_rows(self, hist, data):
        res = self.eval(hist, data)
        return res[1], [dict(zip(res[1], r)) for r in res[2]]

    def step(self, st, cols, rows, data, states, final=False):
        op = st["op"]
        fn = getattr(self, "s_" + op)
        if op in ("natural_join", "concat_rows"):
            return fn(st, cols, rows, data, states)
        if op == "order_rows":
            return fn(st, cols, rows, final)
        return fn(st, cols, rows)

    def s_extend(self, st, cols, rows):
        ops = st["ops"]
        pb = st.get("partition_by")
        ob = st.get("order_by") or []
        rv = st.get("reverse") or []
        windowed = (pb is not None and (pb == 1 or len(pb) > 0)) or len(ob) > 0 or any(is_agg_expr(e) for e in ops.values())
        new_cols = list(cols) + [k for k in ops if k not in cols]
        if not windowed:
            out = []
            for r in rows:
                nr = dict(r)
                for k, e in ops.items():
                    nr[k] = self.ev(e, r)
                out.append(nr)
            return new_cols, out
        part_cols = [] if (pb is None or pb == 1) else list(pb)
        # partitions (null is a key value like any other)
        groups = {}
        order = []
        for i, r in enumerate(rows):
            k = self._key_of(r, part_cols)
            if k not in groups:
                groups[k] = []
                order.append(k)
            groups[k].append(i)
        out = [dict(r) for r in rows]
        for k in order:
            idx = groups[k]
            null_key = any(v is None for v in k)
            if null_key and self.d("pandas.groupby_drops_null_keys"):
                self.hit("pandas.groupby_drops_null_keys")
                for i in idx:
                    for name in ops:
                        out[i][name] = None
                continue
            grows = [rows[i] for i in idx]
            if len(ob) > 0:
                # total order required within the partition
                keys = [self._key_of(r, ob) for r in grows]
                if len(set(keys)) != len(keys):
                    raise Ambiguous("ties in window order")
                if any(v is None for kk in keys for v in kk):
                    raise Ambiguous("null in window order key")
                perm = sorted(range(len(grows)), key=lambda j: 0)  # placeholder, replaced below
                srt = self.sort_rows([dict(r, __i=j) for j, r in enumerate(grows)], ob, rv)
                perm = [r["__i"] for r in srt]
            else:
                perm = list(range(len(grows)))
            for name, e in ops.items():
                fname, arg, extra = self._agg_arg(e) if is_agg_expr(e) else (None, None, None)
                if fname is None:
                    raise Unspecified("non-aggregate expression in windowed extend")
                vals = [None if arg is None else self.ev(arg, grows[j]) for j in perm]
                res = self.window_fn(fname, vals, extra, ordered=len(ob) > 0, has_arg=arg is not None)
                for pos, j in enumerate(perm):
                    out[idx[j]][name] = res[pos]
        return new_cols, out

    def window_fn(self, fname, vals, extra, ordered, has_arg):
        n = len(vals)
        if fname in AGG_UNORDERED or fname in ("_size", "_count"):
            if ordered and fname not in ("_size", "size", "mean", "median", "nunique", "any_value", "all", "any"):
                raise Unspecified("unordered aggregate in ordered window")
            v = self.agg(fname, vals, n)
            return [v] * n
        if fname == "_row_number":
            return list(range(1, n + 1))
        if fname == "cumcount":
            # "cumulative number of non-NA cells" along the declared order, the current cell included
            # (the SQL realisation COUNT(x) OVER (...) and the Polars realisation agree on this reading)
            if self.d("pandas.cumcount_is_row_position"):
                self.hit("pandas.cumcount_is_row_position")
                return list(range(n))
            out, n_seen = [], 0
            for v in vals:
                if v is not None:
                    n_seen += 1
                out.append(n_seen)
            return out
        if fname in ("cumsum", "cummax", "cummin", "cumprod"):
            # SQL window aggregate: running value over the non-null values seen so far
            out = []
            acc = None
            skip = self.d("pandas.cumulative_null_rows")
            for v in vals:
                if v is None:
                    if skip:
                        self.hit("pandas.cumulative_null_rows")
                        out.append(None)
                    else:
                        out.append(acc)
                    continue
                if acc is None:
                    acc = v
                elif fname == "cumsum":
                    acc = acc + v
                elif fname == "cumprod":
                    acc = acc * v
                elif fname == "cummax":
                    acc = max(acc, v)
                else:
                    acc = min(acc, v)
                out.append(acc)
            return out
        if fname == "shift":
            p = extra[0] if extra else 1
            if p is None:
                p = 1
            out = []
            for i in range(n):
                j = i - p
                out.append(vals[j] if 0 <= j < n else None)
            return out
        if fname == "first":
            if vals[0] is None:
                raise Unspecified("first of a partition that starts with a missing value")
            return [vals[0]] * n
        if fname == "last":
            if vals[-1] is None:
                raise Unspecified("last of a partition that ends with a missing value")
            return [vals[-1]] * n
        if fname == "ffill":
            out, last = [], None
            for v in vals:
                if v is not None:
                    last = v
                out.append(last)
            return out
        if fname == "bfill":
            out, nxt = [None] * n, None
            for i in range(n - 1, -1, -1):
                if vals[i] is not None:
                    nxt = vals[i]
                out[i] = nxt
            return out
        if fname == "rank":
            # ranking of the item among the items of its partition; ties and missing items are not settled
            if any(v is None for v in vals) or len(set(vals)) != len(vals):
                raise Unspecified("rank with ties or missing items")
            srt = sorted(vals)
            return [srt.index(v) + 1 for v in vals]
        raise Unspecified("window fn " + fname)

    def s_project(self, st, cols, rows):
        ops = st["ops"]
        gb = list(st.get("group_by") or [])
        groups = {}
        order = []
        for r in rows:
            k = self._key_of(r, gb)
            if any(v is None for v in k) and self.d("pandas.groupby_drops_null_keys"):
                self.hit("pandas.groupby_drops_null_keys")
                continue
            if k not in groups:
                groups[k] = []
                order.append(k)
            groups[k].append(r)
        if len(gb) == 0 and len(order) == 0:
            groups[()] = []
            order.append(())
        out = []
        for k in order:
            grows = groups[k]
            nr = dict(zip(gb, k))
            for name, e in ops.items():
                if not is_agg_expr(e):
                    raise Unspecified("non-aggregate in project")
                fname, arg, extra = self._agg_arg(e)
                if fname in AGG_ORDERED or fname in ("_row_number", "_ngroup"):
                    raise Unspecified("ordered fn in project")
                vals = [None if arg is None else self.ev(arg, r) for r in grows]
                nr[name] = self.agg(fname, vals, len(grows))
            out.append(nr)
        return gb + [k for k in ops if k not in gb], out

    def s_select_rows(self, st, cols, rows):
        out = []
        for r in rows:
            v = self.ev(st["expr"], r)
            if v is True or (v is not None and v is not False and v):
                out.append(r)
        return cols, out

    def s_select_columns(self, st, cols, rows):
        c2 = list(st["columns"])
        return c2, [{c: r[c] for c in c2} for r in rows]

    def s_drop_columns(self, st, cols, rows):
        dr = set(st["columns"])
        c2 = [c for c in cols if c not in dr]
        return c2, [{c: r[c] for c in c2} for r in rows]

    def s_rename_columns(self, st, cols, rows):
        rev = {old: new for new, old in st["map"].items()}
        c2 = [rev.get(c, c) for c in cols]
        return c2, [{rev.get(c, c): r[c] for c in cols} for r in rows]

    def s_map_columns(self, st, cols, rows):
        m = st["map"]
        keep = [c for c in cols if not (c in m and m[c] is None)]
        c2 = [m.get(c, c) for c in keep]
        return c2, [{m.get(c, c): r[c] for c in keep} for r in rows]

    def s_order_rows(self, st, cols, rows, final):
        columns = list(st["columns"])
        rv = st.get("reverse") or []
        limit = st.get("limit")
        nulls = "sqlite" if self.d("sqlite.order_nulls_first") else "last"
        srt = self.sort_rows(rows, columns, rv, nulls=nulls)
        if nulls == "sqlite" and any(r[c] is None for r in rows for c in columns):
            self.hit("sqlite.order_nulls_first")
        if limit is not None and len(srt) > limit:
            # the limit must not cut through a tie group of distinguishable rows
            kin = self._key_of(srt[limit - 1], columns) if limit > 0 else None
            kout = self._key_of(srt[limit], columns)
            if limit > 0 and kin == kout:
                tie = [r for r in srt if self._key_of(r, columns) == kin]
                if any(t != tie[0] for t in tie):
                    raise Ambiguous("limit cuts a tie group")
            srt = srt[:limit]
        return cols, srt

    # ---- joins
    def _b_table(self, st, data, states):
        b = st["b"]
        if "prefix" in b:
            c, r = states[b["prefix"]]
            for st2 in b.get("steps", []):
                c, r = self.step(st2, c, r, data, states, final=False)
            return c, r
        sub = R(self.conv, self.dev)
        c, r = sub.eval_rows(b, data)
        self.triggered |= sub.triggered
        return c, r

    def s_natural_join(self, st, cols, rows, data, states):
        bcols, brows = self._b_table(st, data, states)
        on = st.get("on") or []
        on_a = [o[0] if isinstance(o, (list, tuple)) else o for o in on]
        on_b = [o[1] if isinstance(o, (list, tuple)) else o for o in on]
        jt = st["jointype"].upper()
        if jt == "OUTER":
            jt = "FULL"
        out_cols = list(cols) + [c for c in bcols if c not in cols]
        match_nulls = self.d("pandas.merge_matches_null_keys")

        def matches(l, r):
            for a, b in zip(on_a, on_b):
                va, vb = l[a], r[b]
                if va is None or vb is None:
                    if match_nulls and va is None and vb is None:
                        self.hit("pandas.merge_matches_null_keys")
                        continue
                    return False
                if va != vb:
                    return False
            return True

        def combine(l, r):
            o = {}
            for c in out_cols:
                lv = l[c] if (l is not None and c in l) else None
                rv = r[c] if (r is not None and c in r) else None
                in_l, in_r = c in cols, c in bcols
                if in_l and in_r:
                    o[c] = lv if lv is not None else rv
                elif in_l:
                    o[c] = lv
                else:
                    o[c] = rv
            return o

        out = []
        r_matched = [False] * len(brows)
        for l in rows:
            any_m = False
            for j, r in enumerate(brows):
                if matches(l, r):
                    any_m = True
                    r_matched[j] = True
                    out.append(combine(l, r))
            if not any_m and jt in ("LEFT", "FULL"):
                out.append(combine(l, None))
        if jt in ("RIGHT", "FULL"):
            for j, r in enumerate(brows):
                if not r_matched[j]:
                    out.append(combine(None, r))
        if jt == "FULL" and self.d("sqlite.full_join_emulation") and len(on_a) > 0:
            # SQLite's emulation: (distinct keys of both sides) LEFT JOIN left LEFT JOIN right.
            # Key tuples containing a null never re-join: each distinct such tuple yields one
            # row carrying only the key values.
            def nullkey(row, keys):
                return any(row[k] is None for k in keys)

            lost = [o for o in out if any(o[a] is None for a in on_a)]
            null_tuples = []
            for l in rows:
                if nullkey(l, on_a):
                    t = tuple(l[a] for a in on_a)
                    if t not in null_tuples:
                        null_tuples.append(t)
            for r in brows:
                if nullkey(r, on_b):
                    t = tuple(r[b] for b in on_b)
                    if t not in null_tuples:
                        null_tuples.append(t)
            if null_tuples:
                self.hit("sqlite.full_join_emulation")
                out = [o for o in out if not any(o[a] is None for a in on_a)]
                for t in null_tuples:
                    o = {c: None for c in out_cols}
                    for a, v in zip(on_a, t):
                        o[a] = v
                    out.append(o)
        return out_cols, out

    def s_concat_rows(self, st, cols, rows, data, states):
        bcols, brows = self._b_table(st, data, states)
        idc = st.get("id_column", "source_name")
        out = []
        for r in rows:
            nr = {c: r[c] for c in cols}
            if idc is not None:
                nr[idc] = st.get("a_name", "a")
            out.append(nr)
        for r in brows:
            nr = {c: r[c] for c in cols}
            if idc is not None:
                nr[idc] = st.get("b_name", "b")
            out.append(nr)
        return list(cols) + ([idc] if idc is not None else []), out

    # ---- record transforms
    def s_convert_records(self, st, cols, rows):
        m = st["map"]
        if m.get("blocks_in") is not None:
            cols, rows = self.blocks_to_rowrecs(m["blocks_in"], cols, rows)
        if m.get("blocks_out") is not None:
            cols, rows = self.rowrecs_to_blocks(m["blocks_out"], cols, rows)
        return cols, rows

    @staticmethod
    def _spec_parts(s):
        ct = s["control"]
        ctk = list(s["control_table_keys"])
        rk = list(s["record_keys"])
        ccols = list(ct.keys())
        vcols = [c for c in ccols if c not in ctk]
        nrow = len(ct[ccols[0]])
        return ct, ctk, rk, vcols, nrow

    def rowrecs_to_blocks(self, s, cols, rows):
        ct, ctk, rk, vcols, nrow = self._spec_parts(s)
        out = []
        for r in rows:
            for i in range(nrow):
                nr = {k: r[k] for k in rk}
                for c in ctk:
                    nr[c] = ct[c][i]
                for v in vcols:
                    nr[v] = r[ct[v][i]]
                out.append(nr)
        return rk + ctk + vcols, out

    def blocks_to_rowrecs(self, s, cols, rows):
        ct, ctk, rk, vcols, nrow = self._spec_parts(s)
        recs = {}
        order = []
        for r in rows:
            k = self._key_of(r, rk)
            if k not in recs:
                recs[k] = dict(zip(rk, k))
                order.append(k)
            bk = self._key_of(r, ctk)
            found = False
            for i in range(nrow):
                if tuple(ct[c][i] for c in ctk) == bk:
                    found = True
                    for v in vcols:
                        recs[k][ct[v][i]] = r[v]
            if not found:
                raise Unspecified("block key not in control table")
        row_cols = rk + [ct[v][i] for i in range(nrow) for v in vcols]
        out = []
        for k in order:
            rr = recs[k]
            if any(c not in rr for c in row_cols):
                raise Unspecified("incomplete block")
            out.append(rr)
        return row_cols, out
