"""
Differential decision procedure of DESIGN 2.6 between two real executors, with the
reference model R consulted only when they disagree.
"""

from mc import compare
from mc import hist as H
from mc.refmodel import R, Ambiguous, Unspecified

# deviation switches that exist in R, per backend; only those listed as *open* in
# known_findings.json are ever enabled (findings.py decides)
DEVIATIONS = {
    "pandas": [
        "pandas.nan_compare",
        "pandas.nan_logic",
        "pandas.nan_power",
        "pandas.cumulative_null_rows",
        "pandas.merge_matches_null_keys",
        "pandas.cumcount_is_row_position",
    ],
    "sqlite": ["sqlite.order_nulls_first", "sqlite.full_join_emulation"],
    "polars": [],
}


def final_order(hist):
    """(columns, reverse) if the history ends in order_rows, else None."""
    if hist["steps"] and hist["steps"][-1]["op"] == "order_rows":
        st = hist["steps"][-1]
        return list(st["columns"]), list(st.get("reverse") or [])
    return None


def results_equal(hist, a, b, check_order=True):
    """EQ as multisets; after a final order_rows also the sequence of order keys must agree."""
    if a[0] != "ok" or b[0] != "ok":
        return False
    if not compare.EQ(a, b, ordered=False):
        return False
    fo = final_order(hist) if check_order else None
    if fo is None:
        return True
    cols = [c for c in fo[0]]
    if not (set(cols) <= set(a[1])) and not (set(cols) <= set(b[1])):
        # neither result has the order columns (the pipeline raised no error but produced other columns,
        # e.g. a pivot of blocks whose keys are not in its control table): equal multisets is all there is to compare
        return True
    try:
        ka = compare.project_cols(a, cols)
        kb = compare.project_cols(b, cols)
    except KeyError:
        return False
    return compare.EQ(ka, kb, ordered=True)


def r_eval(hist, data, conv, dev):
    """-> (status, result, triggered) with status in ok / ambiguous / unspecified"""
    r = R(conv, dev)
    try:
        res = r.eval(hist, data)
        return "ok", res, r.triggered
    except Ambiguous as e:
        return "ambiguous", str(e), r.triggered
    except Unspecified as e:
        return "unspecified", str(e), r.triggered


def open_devs(backend, part):
    return [d for d in DEVIATIONS.get(backend, []) if part.is_open(d)]


def _has_full_join(hist, renamed_keys=False):
    for st in hist["steps"]:
        if st["op"] == "natural_join":
            if st["jointype"].upper() in ("FULL", "OUTER"):
                if not renamed_keys or any(isinstance(o, (list, tuple)) and o[0] != o[1] for o in (st.get("on") or [])):
                    return True
        b = st.get("b")
        if isinstance(b, dict) and "table" in b and _has_full_join(b, renamed_keys):
            return True
    return False


def _has_null_key(data):
    for t in data.values():
        for r in t["rows"]:
            for c, v in zip(t["columns"], r):
                if v is None and t["types"].get(c) == "str":
                    return True
    return False


def outside_operator_domain(res):
    return res[0] == "raise" and res[1] == "ValueError" and "is not keyed by" in res[2]


def raise_finding(backend, res, hist, data):
    """Narrow matchers for listed findings whose symptom is an exception."""
    if res[0] != "raise":
        return None
    if backend == "pandas" and res[1] == "ValueError" and res[2].startswith("Shape of passed values"):
        if _has_full_join(hist) and _has_null_key(data):
            return "pandas.outer_merge_null_key_raises"
    if backend == "sqlite" and res[1] == "AssertionError" and _has_full_join(hist, renamed_keys=True):
        return "sqlite.full_join_needs_same_key_names"
    return None


def decide_pair(hist, data, name_a, res_a, conv_a, name_b, res_b, conv_b, part, case_extra=None, check_order=True):
    """
    Full decision for one (history, input) between executors a and b.
    Returns one of: "agree", "accepted", "known", "ambiguous", "violation".
    """
    def req(h, x, y):
        return results_equal(h, x, y, check_order=check_order)

    if req(hist, res_a, res_b):
        part.count("agree")
        return "agree"
    for rs in (res_a, res_b):
        if outside_operator_domain(rs):
            # an in-memory executor validated a documented precondition of a step (a record conversion needs a
            # table keyed by its record keys) and refused the input; SQL cannot check it.  Not a comparable case.
            part.count("skipped_input_outside_operator_domain")
            return "outside_domain"
    for nm, rs in ((name_a, res_a), (name_b, res_b)):
        fid = raise_finding(nm, rs, hist, data)
        if fid is not None and part.is_open(fid):
            part.known(fid, example={"history": H.short(hist), "data": data, nm: compare.brief(rs)})
            part.count("known_finding_cases")
            return "known"
    # they differ: consult R
    sa, ra, _ = r_eval(hist, data, conv_a, ())
    if sa == "ambiguous":
        part.count("skipped_ambiguous_order")
        return "ambiguous"
    if sa == "unspecified" and ("incomplete block" in str(ra) or "block key not in control table" in str(ra)):
        # a pivot fed with incomplete blocks / unknown block keys: outside the record transform's documented domain
        part.count("skipped_input_outside_operator_domain")
        return "outside_domain"
    sb, rb, _ = r_eval(hist, data, conv_b, ())
    if sa == "ok" and sb == "ok" and req(hist, res_a, ra) and req(hist, res_b, rb):
        part.count("accepted_difference")
        return "accepted"
    da = open_devs(name_a, part)
    db = open_devs(name_b, part)
    sa2, ra2, ta = r_eval(hist, data, conv_a, da)
    sb2, rb2, tb = r_eval(hist, data, conv_b, db)
    if sa2 == "ambiguous" or sb2 == "ambiguous":
        part.count("skipped_ambiguous_order")
        return "ambiguous"
    if sa2 == "ok" and sb2 == "ok" and req(hist, res_a, ra2) and req(hist, res_b, rb2):
        trig = sorted(ta | tb)
        if trig:
            ex = {"history": H.short(hist), "data": data, name_a: compare.brief(res_a), name_b: compare.brief(res_b)}
            for t in trig:
                part.known(t, example=ex)
            part.count("known_finding_cases")
            return "known"
    case = {
        "history": hist,
        "data": data,
        name_a: compare.brief(res_a),
        name_b: compare.brief(res_b),
        "R_" + name_a: compare.brief(ra2) if sa2 == "ok" else {sa2: ra2},
        "R_" + name_b: compare.brief(rb2) if sb2 == "ok" else {sb2: rb2},
    }
    if case_extra:
        case.update(case_extra)
    part.violation(case, f"{name_a} and {name_b} disagree and the reference model explains neither as accepted nor as a listed finding: {H.short(hist)}")
    return "violation"


def decide_spec(hist, data, backend, res, conv, part, case_extra=None, check_order=True, raise_ok=False, extra_devs=()):
    """
    Decision for a *specification* property (DESIGN 2.6): the backend's result against the ideal
    reference model; a mismatch is a KNOWN-FINDING only if it equals the exact as-is model built
    from the open deviation switches of that backend (and one of them actually fired).
    Returns: "agree" | "known" | "ambiguous" | "unspecified" | "raised" | "violation".
    """
    s, r, _ = r_eval(hist, data, conv, ())
    if s != "ok":
        part.count("skipped_" + s)
        return s
    if res[0] == "ok" and results_equal(hist, res, r, check_order=check_order):
        part.count("agree:" + backend)
        return "agree"
    fid = raise_finding(backend, res, hist, data)
    if fid is not None and part.is_open(fid):
        part.known(fid, example={"history": H.short(hist), "data": data, backend: compare.brief(res)})
        part.count("known_finding_cases")
        return "known"
    if res[0] == "raise" and raise_ok:
        part.count("raised:" + backend)
        return "raised"
    devs = [d for d in list(DEVIATIONS.get(backend, [])) + list(extra_devs) if part.is_open(d)]
    r2 = None
    if devs and res[0] == "ok":
        s2, r2, trig = r_eval(hist, data, conv, devs)
        if s2 == "ok" and results_equal(hist, res, r2, check_order=check_order) and trig:
            ex = {"history": H.short(hist), "data": data, backend: compare.brief(res), "reference": compare.brief(r)}
            for t in sorted(trig):
                part.known(t, example=ex)
            part.count("known_finding_cases")
            return "known"
    case = {"history": hist, "data": data, "backend": backend, backend: compare.brief(res), "reference": compare.brief(r)}
    if case_extra:
        case.update(case_extra)
    part.violation(case, f"{backend} result differs from the reference semantics (and from every listed finding): {H.short(hist)}")
    return "violation"
