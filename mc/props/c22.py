"""
C22 - schema-check decorators raise TypeError exactly on schema violations.

Full product of (specification, value, call shape, switch) over a bounded family, against a
reference checker written from the property statement (three-valued: must raise / must
return the function's own result / unspecified).
"""

import itertools

from mc import core

PROP = "C22"

SCALAR_SPECS = [
    ("None", None),
    ("int", int),
    ("str", str),
    ("float", float),
    ("{int,str}", {int, str}),
    ("{int,float}", {int, float}),
    ("1", 1),
    ("'a'", "a"),
    ("1.0", 1.0),
    ("{1,'a'}", {1, "a"}),
    ("{int,'a'}", {int, "a"}),
    ("{1.5}", {1.5}),
    # falsy example values declare their types like any other example (C22-r4m1)
    ("0", 0),
    ("''", ""),
    ("{0,''}", {0, ""}),
    ("{0.0,None}", {0.0, None}),
    ("{False}", {False}),
]

COL_SPECS = [
    ("None", None),
    ("int", int),
    ("str", str),
    ("float", float),
    ("{int,float}", {int, float}),
    ("1", 1),
    ("{1,'a'}", {1, "a"}),
    ("{0,''}", {0, ""}),
    ("{0.0,None}", {0.0, None}),
]


def norm(spec):
    """the reference normalisation: example values declare their own types"""
    if spec is None:
        return None
    if isinstance(spec, type):
        return {spec}
    if isinstance(spec, set):
        out = set()
        for s in spec:
            if s is None:
                continue
            out |= norm(s)
        return out
    return {type(spec)}


def is_null(v):
    import pandas

    try:
        return bool(pandas.isnull(v))
    except Exception:
        return False


def ref_scalar(spec, value):
    """-> 'ok' | 'raise' | 'unspec'"""
    types = norm(spec)
    if types is None:
        return "ok"
    if value is None or (isinstance(value, float) and value != value):
        return "unspec"  # the statement only speaks of non-null values
    return "ok" if any(isinstance(value, t) for t in types) else "raise"


def frame_cells(df, col):
    import pandas

    if isinstance(df, pandas.DataFrame):
        return df[col].tolist()
    return df[col].to_list()


def is_frame(v):
    import pandas
    import polars

    return isinstance(v, (pandas.DataFrame, polars.DataFrame))


def ref_frame(colspecs, value):
    if not is_frame(value):
        return "raise"
    cols = set(value.columns)
    for c, s in colspecs.items():
        if c not in cols:
            return "raise"
        types = norm(s)
        if types is None:
            continue
        for cell in frame_cells(value, c):
            if cell is None or is_null(cell):
                continue
            if not any(isinstance(cell, t) for t in types):
                return "raise"
    return "ok"


def ref_check(spec, value):
    if isinstance(spec, dict):
        return ref_frame(spec, value)
    return ref_scalar(spec, value)


def frames():
    import pandas
    import polars

    out = []
    pd_frames = [
        ("pd x=[1,2]", pandas.DataFrame({"x": [1, 2]})),
        ("pd x=[1.5]", pandas.DataFrame({"x": [1.5]})),
        ("pd x=['a']", pandas.DataFrame({"x": ["a"]})),
        ("pd x=[1.0,nan]", pandas.DataFrame({"x": [1.0, None]})),
        ("pd x=[None,None]", pandas.DataFrame({"x": pandas.Series([None, None], dtype=object)})),
        ("pd x=[1,'a'] object", pandas.DataFrame({"x": pandas.Series([1, "a"], dtype=object)})),
        ("pd no x (y)", pandas.DataFrame({"y": [1]})),
        ("pd x,z extra", pandas.DataFrame({"x": [1], "z": ["q"]})),
        ("pd empty x", pandas.DataFrame({"x": pandas.Series([], dtype="int64")})),
        ("pd x=[1] y=['a']", pandas.DataFrame({"x": [1], "y": ["a"]})),
        ("pd x=[1] y=[2]", pandas.DataFrame({"x": [1], "y": [2]})),
        ("pd x=[True]", pandas.DataFrame({"x": [True]})),
    ]
    pl_frames = [
        ("pl x=[1,2]", polars.DataFrame({"x": [1, 2]})),
        ("pl x=[1.5]", polars.DataFrame({"x": [1.5]})),
        ("pl x=['a']", polars.DataFrame({"x": ["a"]})),
        ("pl x=[1,None]", polars.DataFrame({"x": [1, None]})),
        ("pl x=[None]", polars.DataFrame({"x": [None]})),
        ("pl no x (y)", polars.DataFrame({"y": [1]})),
        ("pl x=[1] y=['a']", polars.DataFrame({"x": [1], "y": ["a"]})),
        ("pl empty x", polars.DataFrame({"x": []}, schema={"x": polars.Int64})),
    ]
    return pd_frames + pl_frames


SCALARS = [("1", 1), ("1.5", 1.5), ("'a'", "a"), ("True", True), ("None", None), ("[1]", [1])]


def call(dec_kwargs, shape, value, ret, b_shape=None):
    """Build the decorated function freshly, call it; -> ('ok', result) | ('raise', cls)"""
    from data_algebra.data_schema import SchemaRaises

    def f(a=0, b=7):
        return ret

    g = SchemaRaises(**dec_kwargs)(f)
    try:
        if shape == "positional":
            if b_shape == "positional":
                r = g(value, 3)
            elif b_shape == "keyword":
                r = g(value, b=3)
            else:
                r = g(value)
        elif shape == "keyword":
            if b_shape == "keyword":
                r = g(a=value, b=3)
            else:
                r = g(a=value)
        else:
            r = g()
        return ("ok", r)
    except Exception as e:
        return ("raise", type(e).__name__, str(e)[:120])


def switch_histories(run, depth):
    """all histories over {switch on, switch off, decorate a new function, call the first / the latest decorated
    function with a conforming / violating argument}: a violating call raises exactly when checking is on at
    the time of the call, whenever the function was decorated"""
    from data_algebra.data_schema import SchemaCheckSwitch, SchemaRaises

    sw = SchemaCheckSwitch()
    events = ["on", "off", "decorate", "bad_first", "good_first", "bad_latest", "good_latest"]
    count = 0
    try:
        for n_ev in range(1, depth + 1):
            for hist in itertools.product(events, repeat=n_ev):
                if hist[-1] not in ("bad_first", "bad_latest", "good_first", "good_latest") or "decorate" not in hist:
                    continue  # only histories that end in an observation are judged
                sw.on()
                is_on = True
                fns = []
                verdict = None
                for ev in hist:
                    if ev == "on":
                        sw.on()
                        is_on = True
                    elif ev == "off":
                        sw.off()
                        is_on = False
                    elif ev == "decorate":

                        def f(a):
                            return "result"

                        fns.append(SchemaRaises(arg_specs={"a": int})(f))
                    else:
                        if not fns:
                            continue
                        g = fns[0] if ev.endswith("first") else fns[-1]
                        arg = "not an int" if ev.startswith("bad") else 3
                        try:
                            r = g(arg)
                            got = "ok" if r == "result" else "wrong result"
                        except TypeError:
                            got = "raise"
                        except Exception as e:
                            got = "raise " + type(e).__name__
                        want = "raise" if (ev.startswith("bad") and is_on) else "ok"
                        count += 1
                        if got != want and verdict is None:
                            verdict = (ev, got, want)
                run.outcome(("history", hist[-1], verdict is None))
                if verdict is not None:
                    run.violation({"kind": "switch_history", "history": list(hist), "event": verdict[0], "got": verdict[1], "expected": verdict[2]}, f"switch history {list(hist)}: {verdict[0]} gave {verdict[1]}, expected {verdict[2]} (checking follows the switch at the time of the call)")
    finally:
        sw.on()
    run.set("switch_history_observations", count)
    return count


def run(tier):
    from data_algebra.data_schema import SchemaCheckSwitch

    run = core.Run(PROP, tier)
    fr = frames()
    values = SCALARS + fr
    specs = [(n, s) for n, s in SCALAR_SPECS]
    specs += [("{'x': %s}" % n, {"x": s}) for n, s in COL_SPECS]
    specs += [("{'x': int, 'y': str}", {"x": int, "y": str}), ("{'x': 1, 'y': {'a'}}", {"x": 1, "y": {"a"}})]
    n = 0
    sw = SchemaCheckSwitch()
    RET = object()

    def judge(kind, spec_name, value_name, shape, on, want, got, ret_obj):
        nonlocal n
        n += 1
        run.outcome((kind, want, got[0], on))
        if not on:
            want = "ok"
        case = {"kind": kind, "spec": spec_name, "value": value_name, "call": shape, "switch_on": on, "expected": want, "got": list(got[:2]) if got[0] == "raise" else "returned"}
        if want == "unspec":
            run.count("unspecified_not_compared")
            return
        if want == "ok":
            if got[0] != "ok":
                run.violation(case, f"{kind}: spec {spec_name}, value {value_name}, call {shape}, switch_on={on}: raised {got[1]}({got[2]!r}) but the value conforms")
            elif got[1] is not ret_obj:
                run.violation(case, f"{kind}: the function's own result was not returned unchanged")
        else:
            if got[0] == "ok":
                run.violation(case, f"{kind}: spec {spec_name}, value {value_name}, call {shape}: schema violation not reported")
            elif got[1] != "TypeError":
                run.violation(case, f"{kind}: spec {spec_name}, value {value_name}: raised {got[1]} instead of TypeError")

    try:
        for on in (True, False):
            if on:
                sw.on()
            else:
                sw.off()
            # ---- argument checks
            for (sn, spec), (vn, value) in itertools.product(specs, values):
                for shape in ("positional", "keyword"):
                    want = ref_check(spec, value)
                    got = call({"arg_specs": {"a": spec}}, shape, value, RET)
                    judge("arg", sn, vn, shape, on, want, got, RET)
                # declared argument omitted -> missing, whatever the default
                got = call({"arg_specs": {"a": spec}}, "omitted", None, RET)
                judge("arg", sn, "(omitted)", "omitted", on, "raise", got, RET)
            # ---- two declared args, second one by position / keyword / omitted
            for (sn, spec), (vn, value) in itertools.product(specs[:6], SCALARS):
                for b_shape, b_ok in (("positional", True), ("keyword", True), (None, False)):
                    w1 = ref_check(spec, value)
                    want = "raise" if (w1 == "raise" or not b_ok) else w1
                    got = call({"arg_specs": {"a": spec, "b": int}}, "positional", value, RET, b_shape=b_shape)
                    judge("arg2", sn + " & b:int", vn, f"positional,b={b_shape}", on, want, got, RET)
            # ---- undeclared extra argument is never a schema matter
            got = call({"arg_specs": {"b": int}}, "keyword", "anything", RET, b_shape="keyword")
            judge("arg_undeclared", "{b:int}", "'anything'", "keyword", on, "ok", got, RET)
            # ---- return checks
            for (sn, spec), (vn, value) in itertools.product(specs, values):
                want = ref_check(spec, value)
                got = call({"arg_specs": {}, "return_spec": spec}, "positional", 0, value)
                judge("return", sn, vn, "positional", on, want, got, value)
    finally:
        sw.on()
    n += switch_histories(run, 5 if tier == "quick" else 6)
    run.sample({"spec": "{1,'a'}", "value": 2, "expected": "returns (example values declare their types: {int,str})"})
    run.sample({"spec": "{'x': int}", "value": "pd x=[1.0,nan]", "expected": "raise (non-null float in an int column)"})
    run.set("evaluations", n)
    run.set("states", n)
    run.set("transitions", n)
    run.set("traces_validated_against_impl", n)
    run.assumptions += [
        "a null scalar argument / return value against a non-None specification is left unspecified by the statement and is not compared",
        "type membership is Python isinstance (so True conforms to int)",
    ]
    return run.finish(
        exhaustive=True,
        rule=f"{len(specs)} specifications (types, type sets, example values, sets of examples, column specs, two-column specs) x {len(values)} values (scalars, Pandas and Polars frames: conforming, wrong type, nulls, all-null, missing column, extra column, empty, non-frame) x call shapes (positional, keyword, omitted; second argument positional/keyword/omitted) x return specs x switch on/off; plus all histories of length <= {5 if tier == 'quick' else 6} over switch on / off, decorate, call first / latest function with a conforming / violating argument",
    )


def replay(doc):
    print(doc["case"])
    return run("quick")
