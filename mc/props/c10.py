"""
C10 - columns not reported as used never influence a pipeline's result.

Every explored pipeline state x every table it reads: the columns columns_used() does not
report are perturbed (all-null, every constant of the column's domain, reversed / rotated
values) on every small input, on Pandas and SQLite; the result must not change.  Second clause:
the history replayed over table descriptions narrowed to the reported columns must give the
same result on inputs restricted to those columns.
"""

import itertools

from mc import backends, compare, core, diff, explorer, inputs, menus
from mc import hist as H
from mc.props import c01
from mc.hist import C, V, O, M, F

PROP = "C10"

DOMAIN = {"g": ["a", "b"], "x": [1, 2, 3], "y": [1.0, 2.0], "w": [10, 20]}


def perturbations(table, cols, per_column):
    """yield (name, new table) with the columns `cols` perturbed (all together, or one at a time)"""
    idx = {c: table["columns"].index(c) for c in cols}
    n = len(table["rows"])
    if n == 0 or not cols:
        return
    groups = [[c] for c in cols] if per_column else [list(cols)]
    for grp in groups:

        def with_values(fn, grp=grp):
            rows = []
            for i, r in enumerate(table["rows"]):
                r = list(r)
                for c in grp:
                    r[idx[c]] = fn(c, i, r[idx[c]])
                rows.append(tuple(r))
            return {"columns": table["columns"], "types": table["types"], "rows": rows}

        yield ("null:" + ",".join(grp), with_values(lambda c, i, v: None))
        nconst = max(len(DOMAIN[c]) for c in grp)
        for k in range(nconst):
            yield (f"const{k}:" + ",".join(grp), with_values(lambda c, i, v, k=k: DOMAIN[c][k % len(DOMAIN[c])]))
        if n > 1:
            vals = {c: [r[idx[c]] for r in table["rows"]] for c in grp}
            yield ("reversed:" + ",".join(grp), with_values(lambda c, i, v: vals[c][n - 1 - i]))
            yield ("alternate:" + ",".join(grp), with_values(lambda c, i, v: DOMAIN[c][i % len(DOMAIN[c])]))


def narrowed_history(hist, used):
    """same steps over table descriptions narrowed to the reported columns (right-hand sides too)"""

    def nh(h):
        t = h["table"]
        out = {"table": t, "columns": [c for c in H.TABLES[t] if c in used.get(t, set())], "steps": []}
        for st in h["steps"]:
            b = st.get("b")
            if isinstance(b, dict) and "table" in b:
                st = dict(st, b=nh(b))
            out["steps"].append(st)
        return out

    return nh(hist)


def restrict(table, keep):
    idx = [j for j, c in enumerate(table["columns"]) if c in keep]
    return {"columns": [table["columns"][j] for j in idx], "types": {c: table["types"][c] for c in keep if c in table["types"]}, "rows": [tuple(r[j] for j in idx) for r in table["rows"]]}


def shared_dag_menu(cols, roles, depth, hist):
    """a shared (non-table) node reached by two paths that ask it for different column subsets:
    step 1 derives columns, step 2 narrows one path, step 3 joins / stacks it with the same step-1 object narrowed differently"""
    K, N = menus._pick(cols, roles)
    if depth == 0:
        # a join whose left key y is matched to the right column x while the left table has a data column x too
        e5 = {"table": "e", "steps": [{"op": "rename_columns", "map": {"x": "w"}}]}
        return [
            {"op": "natural_join", "b": e5, "on": [["y", "x"]], "jointype": "LEFT"},
            {"op": "natural_join", "b": e5, "on": [["y", "x"]], "jointype": "INNER"},
            {"op": "extend", "ops": {"z": O("+", C("x"), V(1))}},
            {"op": "extend", "ops": {"z": O("*", C("x"), C("y"))}},
            {"op": "extend", "ops": {"x": O("+", C("x"), V(1)), "z": O("*", C("y"), V(2))}},
            {"op": "extend", "ops": {"z": M("sum", C("y"))}, "partition_by": ["g"]},
            {"op": "select_rows", "expr": O(">", C("x"), V(1))},
        ]
    if depth == 1:
        sels = [["g", "z"], ["g", "x"], ["g", "y"], ["g", "x", "z"]]
        return [{"op": "select_columns", "columns": s} for s in sels if set(s) <= set(cols)] + [{"op": "drop_columns", "columns": ["y"]}]
    if depth == 2:
        items = []
        for s2 in (["g", "z"], ["g", "y"], ["g", "x", "y"], ["g", "x"]):
            b = {"prefix": 1, "steps": [{"op": "select_columns", "columns": [c for c in s2]}]}
            try_cols = set(s2)
            items.append({"op": "natural_join", "b": b, "on": ["g"], "jointype": "LEFT"})
            items.append({"op": "natural_join", "b": b, "on": ["g"], "jointype": "INNER"})
            if try_cols == set(cols):
                items.append({"op": "concat_rows", "b": b, "id_column": None})
        items.append({"op": "natural_join", "b": {"prefix": 1}, "on": ["g"], "jointype": "LEFT"})
        return items
    return []


def work(hists, cfg, open_ids):
    part = core.Part(open_ids)
    for hist in hists:
        ops = H.build(hist)
        part.count("states_evaluated")
        tabs = H.hist_tables(hist)
        try:
            used = {k: set(v) for k, v in ops.columns_used().items()}
        except Exception as e:
            part.violation({"history": hist, "error": repr(e)[:200]}, f"columns_used() raises on an accepted pipeline: {H.short(hist)}")
            continue
        unused = {t: [c for c in H.TABLES[t] if c not in used.get(t, set())] for t in tabs}
        n_unused = sum(len(v) for v in unused.values())
        part.outcome((n_unused, hist["steps"][-1]["op"] if hist["steps"] else "table"))
        if n_unused == 0:
            part.count("states_using_every_column")
            continue
        part.count("states_with_unreported_columns")
        g = backends.gen_sql(ops)
        cat = backends.catalog_ok(ops)
        # narrowed replay
        nhist = narrowed_history(hist, used)
        try:
            nops = H.build(nhist)
        except Exception:
            nops = None
            part.count("narrowing_not_expressible")
        datas = inputs.data_maps(tabs, cfg["kd"], cfg["ke"], inputs.D_ROWS_Q, inputs.E_ROWS_Q)
        if not cfg["per_column"]:
            # quick tier: the empty table, every single row, and the two-row tables that start with the first row
            datas = [dm for dm in datas if len(dm["d"]["rows"]) < 2 or (dm["d"]["rows"][0] == inputs.D_ROWS_Q[0] and dm["d"]["rows"][1] != dm["d"]["rows"][0])]
        for data in datas:
            base_p = backends.run_pandas(ops, data)
            base_s = backends.run_sql(g[1], data) if (g[0] == "ok" and cat) else None
            part.count("traces_validated_against_impl")
            if nops is not None and base_p[0] == "ok":
                rdata = {t: restrict(data[t], used.get(t, set())) for t in tabs}
                if all(len(rdata[t]["columns"]) > 0 for t in tabs):
                    rn = backends.run_pandas(nops, rdata)
                    part.count("narrowed_replays")
                    if not diff.results_equal(hist, base_p, rn):
                        part.violation(
                            {"history": hist, "data": data, "columns_used": {k: sorted(v) for k, v in used.items()}, "full": compare.brief(base_p), "narrowed": compare.brief(rn)},
                            f"the pipeline narrowed to its reported columns gives a different result: {H.short(hist)} used={ {k: sorted(v) for k, v in used.items()} }",
                        )
                        break
            stop = False
            for t in tabs:
                if not unused[t]:
                    continue
                for pname, pt in perturbations(data[t], unused[t], cfg["per_column"]):
                    pdata = dict(data)
                    pdata[t] = pt
                    part.count("perturbed_runs")
                    rp = backends.run_pandas(ops, pdata)
                    ok = (base_p[0] == "raise" and rp[0] == "raise") or diff.results_equal(hist, base_p, rp)
                    which = "pandas"
                    rs = None
                    if ok and base_s is not None:
                        rs = backends.run_sql(g[1], pdata)
                        ok = (base_s[0] == "raise" and rs[0] == "raise") or diff.results_equal(hist, base_s, rs)
                        which = "sqlite"
                    if not ok:
                        part.violation(
                            {"history": hist, "data": data, "table": t, "perturbation": pname, "perturbed_rows": pt["rows"], "backend": which, "columns_used": {k: sorted(v) for k, v in used.items()},
                             "before": compare.brief(base_p if which == "pandas" else base_s), "after": compare.brief(rp if which == "pandas" else rs)},
                            f"{which}: changing unreported column(s) of '{t}' ({pname}) changes the result: {H.short(hist)} used={ {k: sorted(v) for k, v in used.items()} }",
                        )
                        stop = True
                        break
                if stop:
                    break
            if stop:
                break
        part.sample({"history": H.short(hist), "columns_used": {k: sorted(v) for k, v in used.items()}, "unreported": unused}, limit=1)
    return part.dump()


def run(tier):
    run = core.Run(PROP, tier)
    cfg = {"kd": 2, "ke": 1, "per_column": tier != "quick"}
    ex = explorer.Explorer(menus.core_menu_q if tier == "quick" else menus.core_menu)
    states = ex.run(2)
    hists = [s.hist for s in states]
    st = ex.stats()
    if tier != "quick":
        ex2 = explorer.Explorer(c01.slice_menu)
        st2 = ex2.run(2)
        seen = {s.key for s in states}
        add = [s.hist for s in st2 if s.key not in seen]
        hists += add
        st["states"] += len(add)
        st["transitions"] += ex2.stats()["transitions"]
    ex3 = explorer.Explorer(shared_dag_menu)
    st3 = ex3.run(3)
    seen_h = {H.hist_key(h) for h in hists}
    add3 = [s.hist for s in st3 if H.hist_key(s.hist) not in seen_h]
    hists += add3
    st["states"] += len(add3)
    st["transitions"] += ex3.stats()["transitions"]
    hists = core.rotate(hists, run.seed)
    for p in core.pmap(work, [(c, cfg, list(run.open_findings)) for c in core.chunks(hists, 30)]):
        run.merge(p)
    run.set("states", st["states"])
    run.set("transitions", st["transitions"])
    run.set("evaluations", run.cov.get("perturbed_runs", 0) + run.cov.get("narrowed_replays", 0))
    run.assumptions += [
        "perturbed values stay inside each column's type (constants of the column's domain, nulls, permutations of its own values)",
        "quick: all unreported columns of a table are perturbed together; thorough: one column at a time",
        "a narrowed replay that the builder rejects because a step names an unreported column is counted as not expressible, not as a violation",
    ]
    return run.finish(
        exhaustive=True,
        rule="every pipeline reachable in <= 2 builder calls over the core menu" + (" (quick tier: the first call from a thinner one-per-shape selection of the menu, every later call from the full menu)" if tier == "quick" else "")
        + (" plus <= 2 over the SQL-translation slice" if tier != "quick" else "")
        + " plus <= 3 calls over the shared-DAG slice (a derived node narrowed differently on two paths that are then joined or stacked)"
        + f" that leaves some input column unreported x {'the empty table, every single row and two two-row tables' if tier == 'quick' else 'all multisets of <= 2 rows'} x every perturbation (all-null, each domain constant, reversed, alternating) of the unreported columns, on Pandas and SQLite; plus the narrowed replay on restricted inputs",
    )


def replay(doc):
    c = doc["case"]
    d = work([c["history"]], {"kd": 2, "ke": 1, "per_column": True}, [])
    for v in d["violations"]:
        print(v["what"])
    return 1 if d["violations"] else 0
