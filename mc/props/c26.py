"""
C26 - the builder rejects ill-formed steps when the pipeline is built.

Every valid prefix state of the explorer (including prefixes the builder simplifies away:
limit-less order_rows, collapsed selections) x a menu of single-rule violations and their
nearest conforming twins.  Oracle: the verdict attached to each menu entry by the documented
rule it instantiates (reject / accept); the builder must raise exactly on the rejects.
"""

from mc import backends, compare, core, explorer, inputs, menus
from mc import hist as H
from mc.hist import C, V, O, U, M, F

PROP = "C26"

E_NO_Y = {"table": "e", "steps": [{"op": "select_columns", "columns": ["g", "w"]}]}
D_HIST = {"table": "d", "steps": []}


def rule_menu(cols, roles):
    """-> list of (rule, verdict, step)"""
    K, N = menus._pick(cols, roles)
    out = []
    A = N[0] if N else None
    B = N[1] if len(N) > 1 else None
    K0 = K[0] if K else None
    z = menus._new(cols)
    z2 = menus._new(cols + [z])
    bad = "nope"
    add = lambda rule, verdict, step: out.append((rule, verdict, step))
    # ---- rule: referring to an unknown column
    add("unknown_column", "reject", {"op": "extend", "ops": {z: O("+", C(bad), V(1))}})
    add("unknown_column", "reject", {"op": "select_rows", "expr": O(">", C(bad), V(1))})
    add("unknown_column", "reject", {"op": "select_columns", "columns": [bad]})
    add("unknown_column", "reject", {"op": "drop_columns", "columns": [bad]})
    add("unknown_column", "reject", {"op": "rename_columns", "map": {"q9": bad}})
    add("unknown_column", "reject", {"op": "map_columns", "map": {bad: "q9"}})
    add("unknown_column", "reject", {"op": "order_rows", "columns": [bad]})
    add("unknown_column", "reject", {"op": "project", "ops": {"s": M("sum", C(bad))}})
    add("unknown_column", "reject", {"op": "project", "ops": {"s": F("_size")}, "group_by": [bad]})
    add("unknown_column", "reject", {"op": "extend", "ops": {z: F("_size")}, "partition_by": [bad]})
    add("unknown_column", "reject", {"op": "extend", "ops": {z: F("_row_number")}, "partition_by": 1, "order_by": [bad]})
    if A:
        add("unknown_column", "reject", {"op": "select_columns", "columns": [A, bad]})
        add("unknown_column", "reject", {"op": "extend", "ops": {z: M("maximum", C(A), C(bad))}})
        add("unknown_column", "reject", {"op": "extend", "ops": {z: M("sum", C(bad))}, "partition_by": 1})
        # conforming twins
        add("known_column", "accept", {"op": "extend", "ops": {z: O("+", C(A), V(1))}})
        add("known_column", "accept", {"op": "select_rows", "expr": O(">", C(A), V(1))})
        add("known_column", "accept", {"op": "select_columns", "columns": [A]})
        add("known_column", "accept", {"op": "rename_columns", "map": {"q9": A}})
        add("known_column", "accept", {"op": "map_columns", "map": {A: "q9"}})
        add("known_column", "accept", {"op": "order_rows", "columns": [A]})
        add("known_column", "accept", {"op": "order_rows", "columns": [A], "reverse": [A], "limit": 1})
        add("known_column", "accept", {"op": "project", "ops": {"s": M("sum", C(A))}})
        add("known_column", "accept", {"op": "extend", "ops": {z: M("sum", C(A))}, "partition_by": 1})
        add("known_column", "accept", {"op": "extend", "ops": {z: F("_row_number")}, "partition_by": 1, "order_by": [A]})
        if len(cols) >= 2:
            add("known_column", "accept", {"op": "drop_columns", "columns": [A]})
        # ---- rule: same-step use and production
        add("self_update", "accept", {"op": "extend", "ops": {A: O("+", C(A), V(1))}})
        if B:
            add("use_and_produce_same_step", "reject", {"op": "extend", "ops": {A: O("+", C(B), V(1)), z: O("+", C(A), V(1))}})
            add("use_and_produce_same_step", "reject", {"op": "extend", "ops": {z: O("+", C(A), V(1)), A: O("+", C(B), V(1))}})
            add("disjoint_assignments", "accept", {"op": "extend", "ops": {z: O("+", C(A), V(1)), z2: O("+", C(B), V(1))}})
        add("use_and_produce_same_step", "reject", {"op": "extend", "ops": {z: O("+", C(A), V(1)), z2: O("+", C(z), V(1))}})
        # the same rules when the assignments are given as expression objects instead of text
        add("self_update", "accept", {"op": "extend", "ops": {A: O("+", C(A), V(1))}, "as_terms": True})
        if B:
            add("use_and_produce_same_step", "reject", {"op": "extend", "ops": {A: O("+", C(B), V(1)), z: O("*", C(A), V(2))}, "as_terms": True})
            add("use_and_produce_same_step", "reject", {"op": "extend", "ops": {z: O("*", C(A), V(2)), A: O("+", C(B), V(1))}, "as_terms": True})
            add("disjoint_assignments", "accept", {"op": "extend", "ops": {z: O("+", C(A), V(1)), z2: O("+", C(B), V(1))}, "as_terms": True})
            add("use_and_produce_same_step", "reject", {"op": "project", "ops": {z: M("min", C(A)), A: M("max", C(A))}, "as_terms": True})
        add("unknown_column", "reject", {"op": "extend", "ops": {z: O("+", C(bad), V(1))}, "as_terms": True})
        add("project_non_aggregating", "reject", {"op": "project", "ops": {"s": O("+", C(A), V(1))}, "as_terms": True})
        # ---- rule: non-aggregating / too complex project expressions
        add("project_non_aggregating", "reject", {"op": "project", "ops": {"s": O("+", C(A), V(1))}})
        add("project_non_aggregating", "reject", {"op": "project", "ops": {"s": C(A)}})
        add("project_non_aggregating", "reject", {"op": "project", "ops": {"s": V(1)}})
        add("project_non_aggregating_method", "reject", {"op": "project", "ops": {"s": M("abs", C(A))}})
        add("project_too_complex", "reject", {"op": "project", "ops": {"s": O("+", M("sum", C(A)), V(1))}})
        add("project_too_complex", "reject", {"op": "project", "ops": {"s": M("sum", O("+", C(A), V(1)))}})
        add("project_too_complex", "reject", {"op": "project", "ops": {"s": M("maximum", M("sum", C(A)), V(1))}})
        add("project_simple_aggregate", "accept", {"op": "project", "ops": {z: M("max", C(A)), z2: M("sum", V(1))}})
        # ---- rule: non-aggregating / too complex windowed expressions
        add("window_non_aggregating", "reject", {"op": "extend", "ops": {z: O("+", C(A), V(1))}, "partition_by": 1})
        add("window_non_aggregating", "reject", {"op": "extend", "ops": {z: C(A)}, "partition_by": 1})
        # an aggregate makes a plain extend a window over the whole table: a constant or a column copy next to
        # it is a non-aggregated expression, whichever comes first
        add("window_non_aggregating", "reject", {"op": "extend", "ops": {z: V(1), z2: M("max", C(A))}})
        add("window_non_aggregating", "reject", {"op": "extend", "ops": {z2: M("max", C(A)), z: V(1)}})
        add("window_non_aggregating", "reject", {"op": "extend", "ops": {z: C(A), z2: M("max", C(A))}})
        add("window_non_aggregating", "reject", {"op": "extend", "ops": {z2: M("max", C(A)), z: C(A)}})
        add("window_simple_aggregate", "accept", {"op": "extend", "ops": {z: M("max", C(A)), z2: M("sum", C(A))}})
        add("window_too_complex", "reject", {"op": "extend", "ops": {z: M("sum", O("+", C(A), V(1)))}, "partition_by": 1})
        add("window_too_complex", "reject", {"op": "extend", "ops": {z: O("+", M("sum", C(A)), V(1))}, "partition_by": 1})
        if K0:
            add("unknown_column", "reject", {"op": "project", "ops": {"s": M("sum", C(A))}, "group_by": [K0, bad]})
            add("window_non_aggregating", "reject", {"op": "extend", "ops": {z: O("+", C(A), V(1))}, "partition_by": [K0]})
            add("window_too_complex", "reject", {"op": "extend", "ops": {z: M("sum", O("*", C(A), V(2)))}, "partition_by": [K0]})
            add("window_simple_aggregate", "accept", {"op": "extend", "ops": {z: M("max", C(A))}, "partition_by": [K0]})
            # ---- rule: changing a partition or ordering column
            add("change_partition_column", "reject", {"op": "extend", "ops": {K0: M("max", C(A))}, "partition_by": [K0]})
            add("change_group_column", "reject", {"op": "project", "ops": {K0: M("max", C(A))}, "group_by": [K0]})
        if B:
            add("change_partition_column", "reject", {"op": "extend", "ops": {A: M("sum", C(B))}, "partition_by": [A]})
            add("change_order_column", "reject", {"op": "extend", "ops": {A: M("cumsum", C(B))}, "partition_by": 1, "order_by": [A]})
            add("change_order_column", "reject", {"op": "extend", "ops": {A: F("_row_number")}, "partition_by": 1, "order_by": [B, A], "reverse": [A]})
            add("keep_order_column", "accept", {"op": "extend", "ops": {z: M("cumsum", C(B))}, "partition_by": 1, "order_by": [A]})
            add("keep_partition_column", "accept", {"op": "extend", "ops": {B: M("sum", C(B))}, "partition_by": [A]})
    # ---- rule: joins
    if K0 == "g":
        add("join_missing_key", "reject", {"op": "natural_join", "b": menus.E_HIST, "on": [bad], "jointype": "LEFT"})
        add("join_missing_key", "reject", {"op": "natural_join", "b": menus.E_HIST, "on": [["g", bad]], "jointype": "INNER"})
        add("join_missing_key", "reject", {"op": "natural_join", "b": menus.E_HIST, "on": [[bad, "g"]], "jointype": "INNER"})
        if "w" not in cols:
            add("join_missing_key", "reject", {"op": "natural_join", "b": menus.E_HIST, "on": ["w"], "jointype": "LEFT"})
        add("join_keys_present", "accept", {"op": "natural_join", "b": menus.E_HIST, "on": ["g"], "jointype": "LEFT"})
        # the same through the deprecated synonym by=
        add("join_missing_key", "reject", {"op": "natural_join", "b": menus.E_HIST, "on": [bad], "jointype": "LEFT", "use_by": True})
        add("join_keys_present", "accept", {"op": "natural_join", "b": menus.E_HIST, "on": ["g"], "jointype": "LEFT", "use_by": True})
        add("join_keys_present", "accept", {"op": "natural_join", "b": menus.E_HIST, "on": [["g", "g"]], "jointype": "FULL"})
        common_e = (set(cols) & {"g", "w", "y"}) - {"g"}
        if common_e:
            add("join_common_non_key_checked", "reject", {"op": "natural_join", "b": menus.E_HIST, "on": ["g"], "jointype": "LEFT", "check": True})
            add("join_common_non_key_unchecked", "accept", {"op": "natural_join", "b": menus.E_HIST, "on": ["g"], "jointype": "LEFT"})
        common_e2 = (set(cols) & {"g", "w"}) - {"g"}
        if not common_e2:
            add("join_no_common_non_key_checked", "accept", {"op": "natural_join", "b": E_NO_Y, "on": ["g"], "jointype": "LEFT", "check": True})
        if not common_e2:
            # a common column that is a key on one side only (g is joined to w, not to the right g):
            # it is common, it is not an equality key on both sides, so the requested check must refuse it
            add("join_common_non_key_checked", "reject", {"op": "natural_join", "b": E_NO_Y, "on": [["g", "w"]], "jointype": "LEFT", "check": True})
            add("join_common_non_key_unchecked", "accept", {"op": "natural_join", "b": E_NO_Y, "on": [["g", "w"]], "jointype": "LEFT"})
    # ---- rule: concatenation
    if set(cols) != {"g", "w", "y"}:
        add("concat_different_columns", "reject", {"op": "concat_rows", "b": menus.E_HIST, "id_column": "src"})
    if set(cols) == {"g", "x", "y"}:
        add("concat_same_columns", "accept", {"op": "concat_rows", "b": D_HIST, "id_column": "src"})
        add("concat_same_columns", "accept", {"op": "concat_rows", "b": {"table": "d", "steps": [{"op": "select_columns", "columns": ["y", "x", "g"]}]}, "id_column": None})
        add("concat_different_columns", "reject", {"op": "concat_rows", "b": {"table": "d", "steps": [{"op": "drop_columns", "columns": ["y"]}]}, "id_column": "src"})
    add("concat_self", "accept", {"op": "concat_rows", "b": {"prefix": -1}, "id_column": "src9"})
    return out


def work(hists, open_ids):
    part = core.Part(open_ids)
    for hist in hists:
        ops, prefixes = H.build(hist, want_prefixes=True)
        cols, roles = menus.result_roles(hist)
        cols = list(ops.column_names)
        part.count("prefix_states")
        for rule, verdict, step in rule_menu(cols, roles):
            st = dict(step)
            if isinstance(st.get("b"), dict) and st["b"].get("prefix") == -1:
                st["b"] = {"prefix": len(prefixes) - 1}
            part.count("traces_validated_against_impl")
            try:
                nops = H.apply_step(ops, st, prefixes=prefixes)
                got = "accept"
            except Exception as e:
                got = "reject"
                exc = type(e).__name__
            part.outcome((rule, verdict, got))
            if got == verdict:
                continue
            h2 = {"table": hist["table"], "steps": hist["steps"] + [st]}
            if verdict == "accept":
                part.violation({"history": h2, "rule": rule, "expected": "accept", "got": "rejected with " + exc}, f"a step that follows every rule ({rule}) is rejected with {exc}: {H.short(h2)}")
                continue
            # accepted although ill-formed
            fid = None
            if rule == "project_non_aggregating_method":
                fid = "builder.project_accepts_non_aggregating_method"
            if rule == "window_non_aggregating" and step["op"] == "extend":
                e = list(step["ops"].values())[0]
                if e[0] == "o" and e[2][0] == "c" and e[3][0] == "v":
                    fid = "builder.window_accepts_scalar_op_with_literal"
            if fid and part.is_open(fid):
                part.known(fid, example={"history": H.short(h2)})
                continue
            later = None
            try:
                tabs = H.hist_tables(h2)
                dm = inputs.data_maps(tabs, 1, 1, inputs.D_ROWS_Q, inputs.E_ROWS_Q)[1]
                r = backends.run_pandas(nops, dm)
                later = "evaluation then " + ("raises " + r[1] if r[0] == "raise" else "returns " + str(compare.brief(r)))
            except Exception as e:
                later = "evaluation raises " + type(e).__name__
            part.violation({"history": h2, "rule": rule, "expected": "reject", "got": "accepted", "later": later}, f"an ill-formed step ({rule}) is accepted at build time ({later}): {H.short(h2)}")
        part.sample({"prefix": H.short(hist), "entries": len(rule_menu(cols, roles))}, limit=1)
    return part.dump()


def prefix_menu(cols, roles, depth, hist):
    return menus.core_menu(cols, roles, depth, hist)


def run(tier):
    run = core.Run(PROP, tier)
    depth = 2
    ex = explorer.Explorer(prefix_menu)
    states = ex.run(depth)
    hists = [s.hist for s in states]
    # prefixes the builder simplifies away: a trailing limit-less order_rows on every depth<=1 state
    extra = []
    for s in states:
        if s.depth <= 1:
            for o in menus.order_items(s.cols, s.roles):
                if o["limit"] is None and not o["reverse"]:
                    extra.append({"table": s.hist["table"], "steps": s.hist["steps"] + [o]})
                    break
    hists = core.rotate(hists + extra, run.seed)
    for p in core.pmap(work, [(c, list(run.open_findings)) for c in core.chunks(hists, 60)]):
        run.merge(p)
    st = ex.stats()
    run.set("states", st["states"] + len(extra))
    run.set("transitions", st["transitions"] + run.cov.get("traces_validated_against_impl", 0))
    run.assumptions += [
        "verdicts are attached to menu entries by the documented rule each one instantiates (mc/props/c26.py rule_menu); rules the statement does not list (rename collisions, reverse not in order_by, CROSS join with keys, ordered/unordered function mismatch) are not in the menu",
        "which exception class the builder raises is not compared",
    ]
    return run.finish(
        exhaustive=True,
        rule=f"every prefix state reachable in <= {depth} builder calls over the core menu, plus a trailing limit-less order_rows on every state of depth <= 1, x every entry of the rule menu (unknown column in each operator; change of a partition/order/group column; use-and-produce in one extend vs self-update; non-aggregating, non-aggregator-method, nested and compound expressions in project and windowed extend; join with a missing key on either side; join with a common non-key column with and without the check; concat with different / same columns) with its conforming twin",
    )


def replay(doc):
    c = doc["case"]
    h = c["history"]
    prefix = {"table": h["table"], "steps": h["steps"][:-1]}
    ops, prefixes = H.build(prefix, want_prefixes=True)
    try:
        H.apply_step(ops, h["steps"][-1], prefixes=prefixes)
        got = "accept"
    except Exception as e:
        got = "reject"
    print(H.short(h), "rule", c["rule"], "expected", c["expected"], "got", got)
    return 0 if got == c["expected"] else 1
