"""
C21 - solution helpers compute what their documentation promises.

Exhaustive input enumeration per helper, each pipeline evaluated on Pandas and on SQLite and
compared with an independent reference computation written from the documentation:

  rank_to_average               all tables of <= 4 (thorough 5) rows over partition {a, b} x value
                                {1, 2, 3} (ties), with and without partition_by
                                -> mean 1-based position of the tie group within the partition
  last_observed_carried_forward all tables of <= 4 (5) rows with distinct order keys per partition and
                                values {NULL, 1, 2}, with and without partition_by
                                -> latest earlier non-missing value of the partition (scan)
  replicate_rows_query          max_count 1..16 (1..64) x every count 1..max_count on one- and
                                two-row tables -> each row count times, numbered 0..count-1
  def_multi_column_map          all mapping tables over a 2 x 2 (column, value) grid (each cell
                                unmapped or mapped to one of two values) x small keyed tables with
                                mapped, unmapped and missing values x coalesce / rename options
"""

import itertools

from mc import backends, compare, core, inputs

PROP = "C21"


def run_both(ops, data):
    out = {"pandas": backends.run_pandas(ops, data)}
    g = backends.gen_sql(ops)
    out["sqlite"] = backends.run_sql(g[1], data) if g[0] == "ok" else g
    return out


def judge(part, helper, case, results, want):
    for bk, r in results.items():
        part.count("traces_validated_against_impl")
        part.outcome((helper, bk, r[0], len(r[2]) if r[0] == "ok" else -1))
        if r[0] == "ok" and compare.EQ(r, want):
            part.count("agree:" + helper + ":" + bk)
            continue
        part.violation(dict(case, helper=helper, backend=bk, got=compare.brief(r, 12), documented=compare.brief(want, 12)), f"{helper} on {bk} differs from its documented result")
        return False
    return True


# ------------------------------------------------------------------------------ rank_to_average


def rank_cases(tier):
    alpha = [(p, v) for p in ("a", "b") for v in (1, 2, 3)]
    k = 4 if tier == "quick" else 5
    return [inputs.mk(["p", "v"], {"p": "str", "v": "int"}, rows) for rows in inputs.multisets(alpha, k)]


def rank_reference(t, partitioned):
    rows = t["rows"]
    out = []
    for (p, v) in rows:
        grp = [r for r in rows if (r[0] == p or not partitioned)]
        srt = sorted(grp, key=lambda r: r[1])
        pos = [i + 1 for i, r in enumerate(srt) if r[1] == v]
        out.append((p, v, sum(pos) / len(pos)))
    return ("ok", ["p", "v", "r"], out)


def work_rank(tables, open_ids):
    from data_algebra.data_ops import TableDescription
    from data_algebra.solutions import rank_to_average

    part = core.Part(open_ids)
    td = TableDescription(table_name="d", column_names=["p", "v"])
    pipes = {
        True: rank_to_average(td, order_by=["v"], partition_by=["p"], rank_column_name="r"),
        False: rank_to_average(td, order_by=["v"], rank_column_name="r"),
    }
    for t in tables:
        for partitioned, ops in pipes.items():
            part.count("cases:rank_to_average")
            judge(part, "rank_to_average", {"table": t, "partitioned": partitioned}, run_both(ops, {"d": t}), rank_reference(t, partitioned))
    part.sample({"helper": "rank_to_average", "rows": tables[-1]["rows"]}, limit=1)
    return part.dump()


# ------------------------------------------------------------------------------ LOCF


def locf_cases(tier):
    keys = [("a", 1), ("a", 2), ("a", 3), ("b", 1), ("b", 2)]
    k = 4 if tier == "quick" else 5
    out = []
    for n in range(0, k + 1):
        for ks in itertools.combinations(keys, n):
            for vs in itertools.product([None, 1.0, 2.0], repeat=n):
                out.append(inputs.mk(["p", "t", "v"], {"p": "str", "t": "int", "v": "float"}, [(p, tt, v) for (p, tt), v in zip(ks, vs)]))
    # tied order keys inside a partition (C21-r4m1): kept only where every way of breaking the ties
    # gives the same table, so the documented result is determined
    tkeys = [("a", 1), ("a", 1), ("a", 2), ("a", 2), ("b", 1)]
    seen = set()
    for n in range(2, k + 1):
        for idx in itertools.combinations(range(len(tkeys)), n):
            ks = [tkeys[i] for i in idx]
            if len(set(ks)) == len(ks):
                continue
            for vs in itertools.product([None, 1.0, 2.0], repeat=n):
                rows = tuple((p, tt, v) for (p, tt), v in zip(ks, vs))
                if rows in seen:
                    continue
                seen.add(rows)
                t = inputs.mk(["p", "t", "v"], {"p": "str", "t": "int", "v": "float"}, list(rows))
                if locf_tied_reference(t, True) is not None and locf_tied_reference(t, False) is not None:
                    out.append(t)
    return out


def _locf_sequence(rows_in_order):
    out, last = [], None
    for (p, tt, v) in rows_in_order:
        if v is not None:
            last = v
        out.append((p, tt, last))
    return out


def locf_tied_reference(t, partitioned):
    """carry-forward under every tie-breaking order; None if they disagree (result not determined)"""
    rows = t["rows"]
    groups = {}
    for r in rows:
        groups.setdefault(r[0] if partitioned else "", []).append(r)
    out = []
    for _, grp in sorted(groups.items()):
        key = (lambda r: r[1]) if partitioned else (lambda r: (r[0], r[1]))
        answers = set()
        for perm in itertools.permutations(grp):
            if all(key(perm[i]) <= key(perm[i + 1]) for i in range(len(perm) - 1)):
                answers.add(tuple(sorted(_locf_sequence(perm), key=lambda r: (r[0], r[1], -1 if r[2] is None else r[2]))))
        if len(answers) != 1:
            return None
        out.extend(answers.pop())
    return ("ok", ["p", "t", "v"], out)


def locf_reference(t, partitioned):
    rows = t["rows"]
    if len({(r[0], r[1]) for r in rows}) != len(rows):
        return locf_tied_reference(t, partitioned)
    out = []
    for (p, tt, v) in rows:
        if v is not None:
            out.append((p, tt, v))
            continue
        if partitioned:
            earlier = [r for r in rows if r[0] == p and r[1] < tt and r[2] is not None]
            earlier.sort(key=lambda r: r[1])
        else:
            earlier = [r for r in rows if (r[0], r[1]) < (p, tt) and r[2] is not None]
            earlier.sort(key=lambda r: (r[0], r[1]))
        out.append((p, tt, earlier[-1][2] if earlier else None))
    return ("ok", ["p", "t", "v"], out)


def work_locf(tables, open_ids):
    from data_algebra.data_ops import TableDescription
    from data_algebra.solutions import last_observed_carried_forward

    part = core.Part(open_ids)
    td = TableDescription(table_name="d", column_names=["p", "t", "v"])
    pipes = {
        True: last_observed_carried_forward(td, order_by=["t"], partition_by=["p"], value_column_name="v"),
        False: last_observed_carried_forward(td, order_by=["p", "t"], value_column_name="v"),
    }
    for t in tables:
        for partitioned, ops in pipes.items():
            part.count("cases:last_observed_carried_forward")
            judge(part, "last_observed_carried_forward", {"table": t, "partitioned": partitioned}, run_both(ops, {"d": t}), locf_reference(t, partitioned))
    part.sample({"helper": "last_observed_carried_forward", "rows": tables[-1]["rows"]}, limit=1)
    return part.dump()


# ------------------------------------------------------------------------------ replicate_rows_query


def work_replicate(max_counts, open_ids):
    from data_algebra.data_ops import TableDescription
    from data_algebra.solutions import replicate_rows_query

    part = core.Part(open_ids)
    td = TableDescription(table_name="d", column_names=["id", "n"])
    for mc_ in max_counts:
        ops, count_frame = replicate_rows_query(td, count_column_name="n", seq_column_name="i", join_temp_name="tmp_counts", max_count=mc_)
        cf = backends.frame_result(count_frame)
        ct = inputs.mk(cf[1], {c: ("str" if c == "power" else "int") for c in cf[1]}, cf[2])
        tables = [[("r1", c)] for c in range(1, mc_ + 1)]
        tables += [[("r1", c), ("r2", mc_ + 1 - c)] for c in range(1, mc_ + 1)]
        tables += [[("r1", mc_), ("r2", mc_)], []]
        for rows in tables:
            t = inputs.mk(["id", "n"], {"id": "str", "n": "int"}, rows)
            want = ("ok", ["id", "n", "i"], [(rid, c, k) for (rid, c) in rows for k in range(c)])
            part.count("cases:replicate_rows_query")
            judge(part, "replicate_rows_query", {"max_count": mc_, "table": t}, run_both(ops, {"d": t, "tmp_counts": ct}), want)
    part.sample({"helper": "replicate_rows_query", "max_count": max_counts[-1]}, limit=1)
    return part.dump()


# ------------------------------------------------------------------------------ def_multi_column_map

MAP_CELLS = [("c1", "x"), ("c1", "y"), ("c2", "x"), ("c2", "y")]


def mapping_tables():
    out = []
    for assign in itertools.product([None, 1.0, 2.0], repeat=len(MAP_CELLS)):
        rows = [(c, v, m) for (c, v), m in zip(MAP_CELLS, assign) if m is not None]
        out.append(inputs.mk(["column_name", "column_value", "mapped_value"], {"column_name": "str", "column_value": "str", "mapped_value": "float"}, rows))
    return out


def map_data_tables(tier):
    vals = ["x", "y", "z", None]
    singles = [[("r1", a, b)] for a in vals for b in (vals if tier != "quick" else ["x", None])]
    if tier == "quick":
        doubles = [[("r1", "x", "y"), ("r2", "y", "z")], [("r1", "z", None), ("r2", "x", "x")]]
    else:
        doubles = [[("r1", a, b), ("r2", c, d)] for a in vals for b in vals for c in vals[:2] for d in vals[1:3]]
    return [inputs.mk(["id", "c1", "c2"], {"id": "str", "c1": "str", "c2": "str"}, rows) for rows in [[]] + singles + doubles]


def work_map(mtabs, tier, open_ids):
    from data_algebra.data_ops import TableDescription
    from data_algebra.solutions import def_multi_column_map

    part = core.Part(open_ids)
    td = TableDescription(table_name="d", column_names=["id", "c1", "c2"])
    tm = TableDescription(table_name="m", column_names=["column_name", "column_value", "mapped_value"])
    variants = []
    for coalesce in (None, 0.0):
        for back in (None, ["m1", "m2"]):
            ops = def_multi_column_map(td, mapping_table=tm, row_keys=["id"], cols_to_map=["c1", "c2"], coalesce_value=coalesce, cols_to_map_back=back)
            variants.append((coalesce, back, ops))
    dts = map_data_tables(tier)
    for mt in mtabs:
        mp = {(c, v): m for (c, v, m) in mt["rows"]}
        for dt in dts:
            for coalesce, back, ops in variants:
                names = back or ["c1", "c2"]
                rows = []
                for (rid, a, b) in dt["rows"]:
                    ma = mp.get(("c1", a)) if a is not None else None
                    mb = mp.get(("c2", b)) if b is not None else None
                    if coalesce is not None:
                        ma = coalesce if ma is None else ma
                        mb = coalesce if mb is None else mb
                    rows.append((rid, ma, mb))
                want = ("ok", ["id"] + names, rows)
                part.count("cases:def_multi_column_map")
                ok = judge(part, "def_multi_column_map", {"mapping": mt, "table": dt, "coalesce_value": coalesce, "cols_to_map_back": back}, run_both(ops, {"d": dt, "m": mt}), want)
                if not ok:
                    break
    part.sample({"helper": "def_multi_column_map", "mapping_rows": mtabs[-1]["rows"]}, limit=1)
    return part.dump()


def run(tier):
    run = core.Run(PROP, tier)
    oid = list(run.open_findings)
    tasks = []
    for c in core.chunks(rank_cases(tier), 30):
        tasks.append((work_rank, (c, oid)))
    for c in core.chunks(locf_cases(tier), 60):
        tasks.append((work_locf, (c, oid)))
    mcs = list(range(1, 17 if tier == "quick" else 65))
    for c in core.chunks(mcs, 2):
        tasks.append((work_replicate, (c, oid)))
    for c in core.chunks(mapping_tables(), 3):
        tasks.append((work_map, (c, tier, oid)))
    tasks = core.rotate(tasks, run.seed)
    for p in core.pmap(_dispatch, [(f.__name__, a) for f, a in tasks]):
        run.merge(p)
    n = sum(v for k, v in run.cov.items() if k.startswith("cases:"))
    run.set("states", n)
    run.set("transitions", n)
    run.assumptions += [
        "reference computations are written from the helper docstrings in mc/props/c21.py (rank: mean 1-based position of the tie group; LOCF: scan for the latest earlier non-missing value; replicate: count copies numbered from 0; multi-column map: dictionary lookup per listed column, unmapped and missing values give null or the coalesce value)",
        "LOCF inputs have distinct order keys within a partition; replicate counts are >= 1 (log(0) is outside the helper's stated domain)",
    ]
    return run.finish(
        exhaustive=True,
        rule=f"rank_to_average: all multisets of <= {4 if tier == 'quick' else 5} rows over 6 (partition, value) rows, partitioned and not; last_observed_carried_forward: all tables of <= {4 if tier == 'quick' else 5} rows over 5 distinct (partition, time) keys x values {{NULL,1,2}}, plus all such tables over keys with repeated (partition, time) pairs whose result is the same under every tie-breaking order, partitioned and not; replicate_rows_query: max_count 1..{16 if tier == 'quick' else 64} x every count; def_multi_column_map: all 81 mapping tables x {len(map_data_tables(tier))} keyed tables x coalesce / rename options; each on Pandas and SQLite",
    )


def _dispatch(name, args):
    return globals()[name](*args)


def replay(doc):
    c = doc["case"]
    h = c["helper"]
    if h == "rank_to_average":
        d = work_rank([c["table"]], [])
    elif h == "last_observed_carried_forward":
        d = work_locf([c["table"]], [])
    elif h == "replicate_rows_query":
        d = work_replicate([c["max_count"]], [])
    else:
        d = work_map([c["mapping"]], "quick", [])
    for v in d["violations"][:4]:
        print(v["what"], v["case"].get("got"), v["case"].get("documented"))
    return 1 if d["violations"] else 0
