"""
C11 - pipelines that compare equal behave identically.

For every explored pipeline P and every single-step mutation Q of its history (each alternative
menu entry of the same operator kind at that position, literal-type variants, table
description variants, record-map variants): == must be symmetric, != its negation, an
independent rebuild of P must be == P, and *whenever P == Q although the two are structurally
different* both must give identical results on every small input and identical SQL in all
five dialects.
"""

import copy

from mc import backends, compare, core, diff, explorer, inputs, menus
from mc import hist as H
from mc.hist import C, V, O, M, F

PROP = "C11"

UNPIVOT_B = {
    "blocks_in": None,
    "blocks_out": {"control": {"k": ["x", "y"], "v": ["y", "x"]}, "record_keys": ["g"], "control_table_keys": ["k"]},
}
UNPIVOT_C = {
    "blocks_in": None,
    "blocks_out": {"control": {"k": ["p", "q"], "v": ["x", "y"]}, "record_keys": ["g"], "control_table_keys": ["k"]},
}
PIVOT_B = {
    "blocks_in": {"control": {"k": ["x", "y"], "v": ["y", "x"]}, "record_keys": ["g"], "control_table_keys": ["k"]},
    "blocks_out": None,
}


_BIN = {"control": {"k": ["x", "y"], "v": ["x", "y"]}, "record_keys": ["g"], "control_table_keys": ["k"]}
_BIN2 = {"control": {"k": ["x", "y"], "v": ["y", "x"]}, "record_keys": ["g"], "control_table_keys": ["k"]}
# block-to-block maps (both sides set): same incoming layout / different outgoing control table, and vice versa
BLOCK_BLOCK_1 = {"blocks_in": _BIN, "blocks_out": {"control": {"k2": ["p", "q"], "v2": ["x", "y"]}, "record_keys": ["g"], "control_table_keys": ["k2"]}}
BLOCK_BLOCK_2 = {"blocks_in": _BIN, "blocks_out": {"control": {"k2": ["p", "q"], "v2": ["y", "x"]}, "record_keys": ["g"], "control_table_keys": ["k2"]}}
BLOCK_BLOCK_3 = {"blocks_in": _BIN2, "blocks_out": {"control": {"k2": ["p", "q"], "v2": ["x", "y"]}, "record_keys": ["g"], "control_table_keys": ["k2"]}}


def eq_menu(cols, roles, depth, hist):
    items = menus.core_menu(cols, roles, depth, hist)  # includes the record conversions
    if {"g", "k", "v"} <= set(cols):
        items.append({"op": "convert_records", "map": BLOCK_BLOCK_1})
    return items


def literal_variants(e):
    """yield expression ASTs that differ from e only in the type of one literal"""
    if e[0] == "v":
        v = e[1]
        if isinstance(v, bool):
            alts = [int(v), float(v)]
        elif isinstance(v, int):
            alts = [float(v)] + ([bool(v)] if v in (0, 1) else [])
        elif isinstance(v, float) and v == int(v):
            alts = [int(v)] + ([bool(v)] if v in (0.0, 1.0) else [])
        else:
            alts = []
        for a in alts:
            yield ["v", a]
        return
    if e[0] in ("c", "f"):
        return
    for i in range(2, len(e)):
        if isinstance(e[i], list):
            for alt in literal_variants(e[i]):
                yield e[:i] + [alt] + e[i + 1 :]


def step_mutants(step, prefix_cols, prefix_roles, depth):
    """single-argument mutations of one step"""
    kind = step["op"]
    out = []
    for alt in eq_menu(prefix_cols, prefix_roles, depth, None):
        if alt["op"] == kind and alt != step:
            out.append(alt)
    if kind in ("extend", "project"):
        for k, e in step["ops"].items():
            for alt in literal_variants(e):
                s2 = copy.deepcopy(step)
                s2["ops"][k] = alt
                out.append(s2)
        if kind == "extend" and step.get("partition_by") == 1:
            s2 = copy.deepcopy(step)
            s2["partition_by"] = []
            out.append(s2)
    if kind == "select_rows":
        for alt in literal_variants(step["expr"]):
            out.append({"op": "select_rows", "expr": alt})
    if kind == "convert_records":
        for m in (menus.UNPIVOT, UNPIVOT_B, UNPIVOT_C, menus.PIVOT, PIVOT_B, BLOCK_BLOCK_1, BLOCK_BLOCK_2, BLOCK_BLOCK_3):
            if m != step["map"]:
                out.append({"op": "convert_records", "map": m})
    if kind == "natural_join":
        s2 = copy.deepcopy(step)
        s2["check"] = not step.get("check", False)
        out.append(s2)
    if kind == "concat_rows":
        for key, val in (("a_name", "A2"), ("b_name", "B2"), ("id_column", "src2")):
            s2 = copy.deepcopy(step)
            s2[key] = val
            out.append(s2)
    return out


TABLE_VARIANTS = [
    {"columns": ["g", "x", "y", "extra"]},
    {"columns": ["x", "g", "y"]},
    {"columns": ["g", "x", "y"], "qualifiers": {"schema": "s1"}},
]


def build_variant(hist, table_variant):
    from data_algebra.data_ops import TableDescription

    td = TableDescription(table_name=hist["table"], column_names=table_variant["columns"], qualifiers=table_variant.get("qualifiers"))
    ops = td
    prefixes = [ops]
    for st in hist["steps"]:
        ops = H.apply_step(ops, st, prefixes=prefixes)
        prefixes.append(ops)
    return ops


def check_pair(part, hist_p, P, cP, descr_q, Q, datas_fn):
    part.count("pairs")
    try:
        e1 = P == Q
        e2 = Q == P
        n1 = P != Q
    except Exception as ex:
        part.violation({"history": hist_p, "mutant": descr_q, "error": repr(ex)}, f"== raised {type(ex).__name__} comparing two pipelines: {H.short(hist_p)}")
        return
    if e1 != e2:
        part.violation({"history": hist_p, "mutant": descr_q, "P==Q": e1, "Q==P": e2}, f"== is not symmetric: {H.short(hist_p)} vs {descr_q}")
        return
    if n1 != (not e1):
        part.violation({"history": hist_p, "mutant": descr_q}, f"!= is not the negation of ==: {H.short(hist_p)}")
        return
    part.outcome(("eq", bool(e1)))
    if not e1:
        return
    if H.canon(Q) == cP:
        part.count("equal_and_structurally_identical")
        return
    part.count("equal_but_structurally_different")
    # P == Q: must behave identically
    for data in datas_fn():
        part.count("traces_validated_against_impl")
        try:
            ra = backends.run_pandas(P, data)
            rb = backends.run_pandas(Q, data)
        except Exception as ex:
            ra, rb = ("raise", "harness", str(ex)), ("ok", [], [])
        both_raise = ra[0] == "raise" and rb[0] == "raise"
        if not (both_raise or diff.results_equal(hist_p, ra, rb)):
            part.violation(
                {"history": hist_p, "mutant": descr_q, "data": data, "P": compare.brief(ra), "Q": compare.brief(rb)},
                f"two pipelines compare == but give different results: {H.short(hist_p)}  vs  {descr_q}",
            )
            return
    for name, model in backends.all_models().items():
        sa = backends.gen_sql(P, model=model)
        sb = backends.gen_sql(Q, model=model)
        if sa[0] != sb[0] or (sa[0] == "ok" and sa[1] != sb[1]):
            part.violation(
                {"history": hist_p, "mutant": descr_q, "dialect": name, "sql_P": sa[1][-600:], "sql_Q": sb[1][-600:]},
                f"two pipelines compare == but generate different {name} SQL: {H.short(hist_p)}  vs  {descr_q}",
            )
            return


def work(hists, open_ids):
    part = core.Part(open_ids)
    for hist in hists:
        P, prefixes = H.build(hist, want_prefixes=True)
        cP = H.canon(P)
        part.count("states_evaluated")
        tabs = H.hist_tables(hist)
        datas_fn = lambda tabs=tabs: inputs.data_maps(tabs, 2, 1, inputs.D_ROWS_Q, inputs.E_ROWS_Q)
        # reflexive on values: an independent rebuild
        P2 = H.build(hist)
        if not (P == P2 and P2 == P) or (P != P2):
            part.violation({"history": hist}, f"an independently rebuilt copy does not compare equal: {H.short(hist)}")
        if not (P == P):
            part.violation({"history": hist}, f"a pipeline is not == to itself: {H.short(hist)}")
        # column/role bookkeeping per prefix
        cols, roles = list(H.TABLES[hist["table"]]), dict(H.TABLE_ROLES[hist["table"]])
        states = [(cols, roles)]
        for st in hist["steps"]:
            cols, roles = menus.step_columns(st, cols, roles, states)
            states.append((cols, roles))
        for i, st in enumerate(hist["steps"]):
            pc, pr = states[i]
            for alt in step_mutants(st, pc, pr, i):
                hq = {"table": hist["table"], "steps": hist["steps"][:i] + [alt] + hist["steps"][i + 1 :]}
                try:
                    Q = H.build(hq)
                except Exception:
                    part.count("mutants_rejected_by_builder")
                    continue
                check_pair(part, hist, P, cP, H.short(hq), Q, datas_fn)
        # table description variants (same key, different columns / order / qualifiers)
        for tv in TABLE_VARIANTS:
            try:
                Q = build_variant(hist, tv)
            except Exception:
                part.count("mutants_rejected_by_builder")
                continue

            def datas_tv(tv=tv, tabs=tabs):
                out = []
                for dm in inputs.data_maps(tabs, 1, 1, inputs.D_ROWS_Q, inputs.E_ROWS_Q):
                    t = dm["d"]
                    if "extra" in tv["columns"]:
                        t = {"columns": t["columns"] + ["extra"], "types": dict(t["types"], extra="int"), "rows": [tuple(r) + (7,) for r in t["rows"]]}
                    dm = dict(dm)
                    dm["d"] = t
                    out.append(dm)
                return out

            def run_strict(ops, data):
                return backends.run_pandas(ops, data)

            check_pair(part, hist, P, cP, f"same steps over TableDescription('d', {tv})", Q, datas_tv)
        part.sample({"history": H.short(hist)}, limit=1)
    return part.dump()


def run(tier):
    run = core.Run(PROP, tier)
    depth = 2
    ex = explorer.Explorer(eq_menu)
    states = ex.run(depth)
    hists = core.rotate([s.hist for s in states], run.seed)
    for p in core.pmap(work, [(c, list(run.open_findings)) for c in core.chunks(hists, 30)]):
        run.merge(p)
    st = ex.stats()
    run.set("states", st["states"])
    run.set("transitions", st["transitions"] + run.cov.get("pairs", 0))
    run.set("evaluations", run.cov.get("pairs", 0))
    # every pair is a distinct (pipeline, mutant) pair whose two members differ structurally or not
    run.set("distinct_nontrivial", run.cov.get("pairs", 0) - run.cov.get("equal_and_structurally_identical", 0))
    run.assumptions += [
        "'structurally different' is decided by the explorer's own dump (mc/hist.canon), which is finer than ==",
        "identical behaviour = the same Pandas result (same column set, same multiset of rows, same key order after a final order_rows; or both raise) on every input, and character-identical SQL for SQLite, PostgreSQL, BigQuery, SparkSQL and MySQL in one process",
    ]
    return run.finish(
        exhaustive=True,
        rule=f"every pipeline reachable in <= {depth} builder calls over the core menu + record maps, paired with every single-step mutant (all other menu entries of the same operator kind at that position, literal type variants 1/True/1.0, partition_by=1 vs [], join check flag, concat labels, 5 record-map layouts) and with 3 table-description variants (extra column, column order, qualifiers)",
    )


def replay(doc):
    c = doc["case"]
    p = work([c["history"]], [])
    for v in p["violations"]:
        print(v["what"])
    return 1 if p["violations"] else 0
