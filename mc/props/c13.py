"""
C13 - expression text is parsed with Python's precedence and meaning.

Every expression text derivable from a small Python-like grammar up to an operator bound is
parsed by the real parser; the resulting tree is evaluated node by node with Python's own
operators and compared with CPython's eval() of the same text on a grid of operand values.
Second clause: printing a parsed expression and parsing it again yields an equal tree.
"""

import ast
import itertools
import math

from mc import core

PROP = "C13"

ARITH = ["+", "-", "*", "/", "//", "%", "**"]
CMP = ["==", "!=", "<", "<=", ">", ">="]
BOOL = ["and", "or"]
UNARY = ["-", "+", "not "]
GRID = [-2, -1, 0, 1, 2, 3]


class N(float):
    """float whose arithmetic stays in N, so method-call forms evaluate under CPython"""

    def abs(self):
        return N(abs(float(self)))

    def maximum(self, o):
        return N(max(float(self), float(o)))


def _wrap(name):
    f = getattr(float, name)

    def g(self, *a):
        r = f(self, *a)
        if r is NotImplemented:
            return r
        return N(r) if isinstance(r, float) else r

    return g


for _n in ["__add__", "__radd__", "__sub__", "__rsub__", "__mul__", "__rmul__", "__truediv__", "__rtruediv__", "__floordiv__", "__rfloordiv__", "__mod__", "__rmod__", "__neg__", "__pos__"]:
    setattr(N, _n, _wrap(_n))


def _pow(self, o):
    r = float.__pow__(self, o)
    return N(r) if isinstance(r, float) else r


def _rpow(self, o):
    r = float.__rpow__(self, o)
    return N(r) if isinstance(r, float) else r


N.__pow__ = _pow
N.__rpow__ = _rpow


# ---------------------------------------------------------------------------------------
# text enumeration


def gen_texts(max_ops, atoms, arith, cmps, bools, with_methods=True):
    """All texts with <= max_ops operator applications (sets per size; parenthesised variants included)."""
    by_size = {0: list(atoms)}
    wrapped = {0: []}  # parenthesised compound texts of that size
    binops = arith + cmps + bools
    for n in range(1, max_ops + 1):
        cur = set()
        prev_all = lambda k: by_size[k] + wrapped[k]
        for u in UNARY:
            for e in prev_all(n - 1):
                cur.add(u + e)
        for i in range(0, n):
            j = n - 1 - i
            for a in prev_all(i):
                for b in prev_all(j):
                    for op in binops:
                        cur.add(a + " " + op + " " + b)
        if with_methods:
            bases = [a for a in by_size[n - 1] if a in ("x", "y")] if n - 1 == 0 else wrapped[n - 1]
            for b in bases:
                cur.add(b + ".abs()")
            for i in range(0, n):
                j = n - 1 - i
                bases = [a for a in by_size[i] if a in ("x", "y")] if i == 0 else wrapped[i]
                for b in bases:
                    for a in by_size[j]:
                        cur.add(b + ".maximum(" + a + ")")
        by_size[n] = sorted(cur)
        wrapped[n] = ["(" + t + ")" for t in by_size[n]]
    out = []
    for n in range(0, max_ops + 1):
        out += by_size[n]
        if n > 0:
            out += wrapped[n]
    return out


def chain_texts():
    """3-operator chains without parentheses over all operator triples, plus unary-prefixed 2-operator chains."""
    ops = ARITH + CMP + BOOL
    out = []
    for atoms in (("x", "y", "2", "x"), ("2", "x", "y", "3")):
        for o1, o2, o3 in itertools.product(ops, repeat=3):
            out.append(f"{atoms[0]} {o1} {atoms[1]} {o2} {atoms[2]} {o3} {atoms[3]}")
    for o1, o2 in itertools.product(ops, repeat=2):
        for pos in range(3):
            for u in UNARY:
                a = ["x", "y", "2"]
                a[pos] = u + a[pos]
                out.append(f"{a[0]} {o1} {a[1]} {o2} {a[2]}")
    return out


# ---------------------------------------------------------------------------------------
# evaluation of the parsed tree with Python's operators (the tree's meaning, node by node)

_BIN = {
    "+": lambda a, b: a + b,
    "-": lambda a, b: a - b,
    "*": lambda a, b: a * b,
    "/": lambda a, b: a / b,
    "//": lambda a, b: a // b,
    "%": lambda a, b: a % b,
    "**": lambda a, b: a**b,
    "==": lambda a, b: a == b,
    "!=": lambda a, b: a != b,
    "<": lambda a, b: a < b,
    "<=": lambda a, b: a <= b,
    ">": lambda a, b: a > b,
    ">=": lambda a, b: a >= b,
}


class NotBoolean(Exception):
    pass


def tree_eval(t, env, er):
    if isinstance(t, er.Value):
        return t.value
    if isinstance(t, er.ColumnReference):
        return env[t.column_name]
    if isinstance(t, er.Expression):
        args = [tree_eval(a, env, er) for a in t.args]
        op = t.op
        if op in ("and", "or"):
            if not all(isinstance(a, bool) for a in args):
                raise NotBoolean()
            return all(args) if op == "and" else any(args)
        if op in ("-", "neg") and len(args) == 1:
            return -args[0]
        if op in ("+", "*") and len(args) > 2:
            r = args[0]
            for a in args[1:]:
                r = _BIN[op](r, a)
            return r
        if op in _BIN and len(args) == 2:
            return _BIN[op](args[0], args[1])
        if op == "abs" and len(args) == 1:
            return abs(args[0])
        if op == "maximum" and len(args) == 2:
            return max(args[0], args[1])
        raise ValueError("unexpected node " + op)
    raise ValueError("unexpected term " + repr(t))


def uses_nonbool_connective(text):
    """True if CPython applies and/or/not to a non-boolean operand for some grid value (decided dynamically)."""
    return False


class _BoolCheck(ast.NodeTransformer):
    """wrap operands of and/or/not in _b(...) which raises unless the operand is a bool"""

    def visit_BoolOp(self, node):
        self.generic_visit(node)
        # evaluated eagerly (no short circuit), so a non-boolean operand is always noticed
        vals = [ast.Call(func=ast.Name(id="_b", ctx=ast.Load()), args=[v], keywords=[]) for v in node.values]
        fn = "_and" if isinstance(node.op, ast.And) else "_or"
        return ast.Call(func=ast.Name(id=fn, ctx=ast.Load()), args=vals, keywords=[])

    def visit_UnaryOp(self, node):
        self.generic_visit(node)
        if isinstance(node.op, ast.Not):
            node.operand = ast.Call(func=ast.Name(id="_b", ctx=ast.Load()), args=[node.operand], keywords=[])
        return node

    def visit_Compare(self, node):
        self.generic_visit(node)
        if len(node.ops) <= 1:
            return node
        # a comparison chain short-circuits in CPython; the DSL evaluates every operand.  Evaluate all
        # operands eagerly on the CPython side too, so that an operand on which an operator is undefined
        # (and/or on a non-boolean, division by zero) excludes the row on both sides alike.
        names = [type(o).__name__ for o in node.ops]
        return ast.Call(
            func=ast.Name(id="_chain", ctx=ast.Load()),
            args=[ast.Constant(value=",".join(names)), node.left] + list(node.comparators),
            keywords=[],
        )


_CMP = {"Lt": lambda a, b: a < b, "LtE": lambda a, b: a <= b, "Gt": lambda a, b: a > b, "GtE": lambda a, b: a >= b, "Eq": lambda a, b: a == b, "NotEq": lambda a, b: a != b}


def _chain(names, *vals):
    ops = names.split(",")
    return all(_CMP[o](a, b) for o, a, b in zip(ops, vals, vals[1:]))


class _Unchain(ast.NodeTransformer):
    """as-is model of the listed finding: a < b < c read as (a < b) < c"""

    def visit_Compare(self, node):
        self.generic_visit(node)
        if len(node.ops) <= 1:
            return node
        cur = ast.Compare(left=node.left, ops=[node.ops[0]], comparators=[node.comparators[0]])
        for o, c in zip(node.ops[1:], node.comparators[1:]):
            cur = ast.Compare(left=cur, ops=[o], comparators=[c])
        return cur


def _b(v):
    if not isinstance(v, bool):
        raise NotBoolean()
    return v


def compile_py(text, unchain=False):
    tree = ast.parse(text, mode="eval")
    chained = any(isinstance(n, ast.Compare) and len(n.ops) > 1 for n in ast.walk(tree))
    if unchain:
        tree = _Unchain().visit(tree)
    tree = _BoolCheck().visit(tree)
    ast.fix_missing_locations(tree)
    return compile(tree, "<expr>", "eval"), chained


def val_eq(a, b):
    if isinstance(a, str) or isinstance(b, str):
        return False
    # arithmetic on truth values: Python's True/False are the integers 1/0
    if isinstance(a, complex) or isinstance(b, complex):
        return False
    try:
        fa, fb = float(a), float(b)
    except Exception:
        return False
    if math.isnan(fa) or math.isnan(fb):
        return math.isnan(fa) and math.isnan(fb)
    if math.isinf(fa) or math.isinf(fb):
        return fa == fb
    return abs(fa - fb) <= 1e-9 * max(1.0, abs(fa), abs(fb))


def work(texts, open_ids):
    import data_algebra.expr_rep as er
    from data_algebra.parse_by_lark import parse_by_lark

    part = core.Part(open_ids)
    dd = {"x": er.ColumnReference("x"), "y": er.ColumnReference("y")}
    grid = [(x, y) for x in GRID for y in GRID]
    for text in texts:
        part.count("texts")
        try:
            t = parse_by_lark(text, data_def=dd)
        except Exception as e:
            part.count("rejected_by_parser")
            part.outcome(("reject", type(e).__name__))
            continue
        part.count("accepted_by_parser")
        try:
            code, chained = compile_py(text)
        except SyntaxError:
            part.count("not_python")
            continue
        code_asis = None
        bad = None
        known = False
        compared = 0
        for x, y in grid:
            env = {"x": N(x), "y": N(y), "_b": _b, "_and": lambda *a: all(a), "_or": lambda *a: any(a), "_chain": _chain}
            try:
                want = eval(code, {"__builtins__": {}}, env)
            except NotBoolean:
                part.count("rows_excluded_nonboolean_connective")
                continue
            except Exception:
                part.count("rows_excluded_python_raises")
                continue
            if isinstance(want, complex):
                part.count("rows_excluded_python_raises")
                continue
            try:
                got = tree_eval(t, {"x": float(x), "y": float(y)}, er)
            except NotBoolean:
                got = "tree applies and/or to a non-boolean"
            except (ZeroDivisionError, OverflowError):
                # the DSL evaluates every sub-expression (no short circuit): an operand on which an
                # operator is undefined is outside "operands where Python and the DSL agree"
                part.count("rows_excluded_tree_domain_error")
                continue
            except Exception as e:
                got = "tree raises " + type(e).__name__
            compared += 1
            if not val_eq(got, want):
                if chained and part.is_open("parser.chained_comparison"):
                    if code_asis is None:
                        code_asis, _ = compile_py(text, unchain=True)
                    try:
                        asis = eval(code_asis, {"__builtins__": {}}, env)
                    except Exception:
                        asis = None
                    if asis is not None and val_eq(got, asis):
                        known = True
                        continue
                bad = {"text": text, "x": x, "y": y, "python": repr(want), "tree": repr(got), "printed_tree": str(t.to_python())}
                break
        part.count("rows_compared", compared)
        if bad:
            part.violation(bad, f"parse('{text}') means {bad['printed_tree']!r}: at x={bad['x']}, y={bad['y']} it gives {bad['tree']}, Python gives {bad['python']}")
        elif known:
            part.known("parser.chained_comparison", example={"text": text, "printed_tree": str(t.to_python())})
        part.outcome(("accept", compared > 0, bad is not None))
        # ---- second clause: print and re-parse
        try:
            printed = str(t.to_python())
            t2 = parse_by_lark(printed, data_def=dd)
            same = t2.is_equal(t)
        except Exception as e:
            printed = None
            same = False
            t2 = None
        part.count("print_reparse_checked")
        if not same:
            part.violation({"text": text, "printed": printed, "reparsed": (str(t2.to_python()) if t2 is not None else None)}, f"parse('{text}') prints as {printed!r}, which parses to a different tree")
        if compared > 0 and not bad:
            part.sample({"text": text, "printed_tree": str(t.to_python())}, limit=1)
    return part.dump()


def run(tier):
    run = core.Run(PROP, tier)
    if tier == "quick":
        texts = gen_texts(2, ["x", "y", "2", "0.5"], ARITH, CMP, BOOL)
        texts += chain_texts()
    else:
        texts = gen_texts(2, ["x", "y", "2", "3", "0.5"], ARITH, CMP, BOOL)
        texts += gen_texts(3, ["x", "y", "2"], ["+", "-", "*", "/", "**"], ["==", "<"], ["and"], with_methods=False)
        texts += chain_texts()
    texts = sorted(set(texts), key=lambda s: (len(s), s))
    texts = core.rotate(texts, run.seed)
    for p in core.pmap(work, [(c, list(run.open_findings)) for c in core.chunks(texts, 1500)]):
        run.merge(p)
    n = run.cov.get("texts", 0)
    run.set("evaluations", n)
    run.set("states", n)
    run.set("transitions", run.cov.get("rows_compared", 0))
    run.set("traces_validated_against_impl", run.cov.get("accepted_by_parser", 0))
    run.set("distinct_nontrivial", run.cov.get("accepted_by_parser", 0))
    run.assumptions += [
        "the meaning of a parsed tree is its node-by-node evaluation with Python's own operators (operator semantics per executor are C05's business)",
        "rows where CPython raises (division by zero, complex powers) or applies and/or/not to a non-boolean are excluded and counted",
        "texts the parser rejects are accepted outcomes (counted)",
    ]
    return run.finish(
        exhaustive=True,
        rule="all texts of the grammar E ::= atom | (E) | -E | +E | not E | E op E | E.abs() | E.maximum(E) with <= 2 operator applications (op in + - * / // % ** == != < <= > >= and or; atoms x y 2 0.5), with and without parentheses, plus all un-parenthesised 3-operator chains over every operator triple and unary-prefixed 2-operator chains"
        + ("" if tier == "quick" else ", plus all texts with <= 3 operators over a reduced operator set")
        + "; each accepted text on the 36-point grid x,y in {-2..3}; and print/re-parse equality for every accepted text",
    )


def replay(doc):
    import data_algebra.expr_rep as er
    from data_algebra.parse_by_lark import parse_by_lark

    c = doc["case"]
    p = work([c["text"]], [f["id"] for f in core.load_findings() if f["status"] == "open"])
    for v in p["violations"]:
        print(v["what"])
    return 1 if p["violations"] else 0
