"""
C19 - evaluation never modifies the caller's tables and is repeatable.

Every explored pipeline state x every small input (with non-default indexes and extra unused
columns) x every entry point (eval, transform, ex with captured tables, frame >> ops,
ops.act_on(frame)) x Pandas / Polars eager / Polars lazy: a deep snapshot of the caller's
frames (values bit-exact, dtypes, columns, index values and name, object identity inside the
caller's dict) taken before must equal the one taken after; evaluating again must give
exactly the same result.
"""

import math

from mc import backends, compare, core, explorer, inputs, menus
from mc import hist as H

PROP = "C19"


def c19_slice(cols, roles, depth, hist):
    """one entry per operator kind, picked around in-place writes on intermediate frames"""
    K, N = menus._pick(cols, roles)
    items = []
    ext = menus.extend_items(cols, roles)
    items += ext[:2] + (ext[-4:] if len(ext) > 6 else [])
    win = menus.window_items(cols, roles)
    items += [w for w in win if list(w["ops"].values())[0][1] in ("sum", "_size", "cumsum", "_row_number")][:5]
    pr = menus.project_items(cols, roles)
    items += [p for p in pr if list(p["ops"].values())[:1] and list(p["ops"].values())[0][1] in ("sum", "_size")][:4]
    items += menus.select_rows_items(cols, roles)[:2]
    ci = menus.column_items(cols, roles)
    items += [c for c in ci if c["op"] in ("drop_columns", "rename_columns")][:3] + [c for c in ci if c["op"] == "map_columns"] + [c for c in ci if c["op"] == "select_columns"][:2]
    items += [o for o in menus.order_items(cols, roles) if o["limit"] in (None, 1)][:3]
    items += menus.join_items(cols, roles, depth, jointypes=("LEFT", "FULL", "CROSS"), rights=[menus.E_HIST])
    items += menus.concat_items(cols, roles, depth)
    items += menus.cdata_items(cols, roles)
    return items


def _cell(v):
    if v is None:
        return "None"
    if isinstance(v, float):
        if math.isnan(v):
            return "nan"
        return repr(v)
    return repr(v)


def snap_pandas(df):
    return (
        "pandas",
        [str(c) for c in df.columns],
        [str(t) for t in df.dtypes],
        [_cell(i) for i in df.index.tolist()],
        repr(df.index.name),
        [[_cell(v) for v in df.iloc[:, j].tolist()] for j in range(df.shape[1])],
    )


def snap_polars(df):
    import polars as pl

    if isinstance(df, pl.LazyFrame):
        df = df.collect()
    return ("polars", list(df.columns), [str(t) for t in df.dtypes], [[_cell(v) for v in r] for r in df.rows()])


def snap(v):
    import pandas

    if isinstance(v, pandas.DataFrame):
        return snap_pandas(v)
    return snap_polars(v)


INDEX_VARIANTS = {
    "default": lambda n: None,
    "reversed": lambda n: list(range(n - 1, -1, -1)),
    "duplicate": lambda n: [7] * n,
    "strings": lambda n: ["r%d" % i for i in range(n)],
    # RangeIndex objects that are not the default 0..n-1 (a slice of a larger frame, every other row)
    "range_offset": lambda n: __import__("pandas").RangeIndex(10, 10 + n),
    "range_step": lambda n: __import__("pandas").RangeIndex(0, 2 * n, 2),
}


def mk_frames(kind, data, index_variant, extra):
    """-> dict name -> frame"""
    out = {}
    for k, t in data.items():
        if extra:
            t = {"columns": t["columns"] + ["unused_extra"], "types": dict(t["types"], unused_extra="int"), "rows": [tuple(r) + (5,) for r in t["rows"]]}
        if kind == "pandas":
            df = inputs.to_pandas(t)
            idx = INDEX_VARIANTS[index_variant](df.shape[0])
            if idx is not None:
                df.index = idx
                df.index.name = "myindex"
            out[k] = df
        else:
            out[k] = inputs.to_polars(t, lazy=(kind == "polars_lazy"))
    return out


def result_snap(r, order_cols=None):
    """bit-exact snapshot of a result *as a table*: columns, dtypes, the multiset of rows, and the
    sequence of order keys when the pipeline ends in order_rows (row order is otherwise not part
    of a result: Polars group_by, for one, returns groups in no fixed order)"""
    try:
        s = snap(r)
        if s[0] == "pandas":
            cols, dtypes, rows = s[1], s[2], list(zip(*s[5])) if s[5] and s[5][0] else []
        else:
            cols, dtypes, rows = s[1], s[2], [tuple(x) for x in s[3]]
        keyseq = None
        if order_cols and all(c in cols for c in order_cols):
            idx = [cols.index(c) for c in order_cols]
            keyseq = [tuple(row[j] for j in idx) for row in rows]
        return (s[0], cols, dtypes, sorted(rows), keyseq)
    except Exception as e:
        return ("unsnappable", repr(e))


def build_captured(hist, frames):
    """the pipeline built over data(name=frame) table descriptions (single-table histories only)"""
    from data_algebra.data_ops import data

    ops = data(**{hist["table"]: frames[hist["table"]]})
    prefixes = [ops]
    for st in hist["steps"]:
        ops = H.apply_step(ops, st, prefixes=prefixes)
        prefixes.append(ops)
    return ops


def entry_points(ops, hist, frames, single):
    """yield (name, thunk)"""
    yield "eval", (lambda: ops.eval(frames))
    if single:
        name = hist["table"]
        yield "transform", (lambda: ops.transform(frames[name]))
        yield "rrshift", (lambda: frames[name] >> ops)
        yield "act_on", (lambda: ops.act_on(frames[name]))
        yield "ex", (lambda: build_captured(hist, frames).ex())


def pure_uses(ops, hist):
    """operations on a pipeline object that must leave it unchanged (exceptions are not this property's business)"""
    from data_algebra.data_ops import TableDescription

    def quiet(f):
        try:
            f()
        except BaseException as e:
            if isinstance(e, (KeyboardInterrupt, SystemExit)):
                raise

    quiet(lambda: ops.to_python(pretty=False))
    quiet(lambda: repr(ops))
    quiet(lambda: ops == ops)
    quiet(lambda: ops.columns_used())
    quiet(lambda: ops.methods_used())
    quiet(lambda: backends.gen_sql(ops))
    quiet(lambda: backends.gen_sql(ops, model=backends.pg_model()))
    tname = hist["table"]
    cols = list(H.TABLES[tname])
    up = TableDescription(table_name=tname, column_names=cols).extend({cols[1]: cols[1] + " + 0"}) if len(cols) > 1 else None
    quiet(lambda: TableDescription(table_name="other_name", column_names=cols) >> ops)
    quiet(lambda: ops.replace_leaves({tname: TableDescription(table_name="other_name", column_names=cols)}))
    if up is not None:
        quiet(lambda: up >> ops)
        quiet(lambda: ops.eval({tname: up}))


def work(hists, open_ids, quick=False):
    part = core.Part(open_ids)
    for hist in hists:
        ops = H.build(hist)
        part.count("states_evaluated")
        tabs = H.hist_tables(hist)
        single = len(tabs) == 1 and not any(isinstance(s.get("b"), dict) and "table" in s["b"] for s in hist["steps"])
        datas = inputs.data_maps(tabs, 2, 1, inputs.D_ROWS_Q, inputs.E_ROWS_Q)
        if quick:
            # whether a frame is written to does not depend on its values: the empty table, every single row and
            # the two-row tables made of different rows
            datas = [dm for dm in datas if len(dm["d"]["rows"]) < 2 or dm["d"]["rows"][0] != dm["d"]["rows"][1]]
            datas = [dm for dm in datas if len(dm["d"]["rows"]) < 2 or dm["d"]["rows"][0] == inputs.D_ROWS_Q[0]]
        # once per pipeline: evaluate, use the pipeline object in ways that must not change it, evaluate again
        probe = max(datas, key=lambda dm: sum(len(t["rows"]) for t in dm.values()))
        pre = {}
        for k0 in ("pandas", "polars_eager"):
            try:
                pre[k0] = ("ok", result_snap(ops.eval(mk_frames(k0, probe, "default", False))))
            except BaseException as e:
                if isinstance(e, (KeyboardInterrupt, SystemExit)):
                    raise
                pre[k0] = ("raise", type(e).__name__)
        pure_uses(ops, hist)
        for k0 in ("pandas", "polars_eager"):
            try:
                post = ("ok", result_snap(ops.eval(mk_frames(k0, probe, "default", False))))
            except BaseException as e:
                if isinstance(e, (KeyboardInterrupt, SystemExit)):
                    raise
                post = ("raise", type(e).__name__)
            part.count("pure_use_probes")
            if (pre[k0][0] != post[0]) or (post[0] == "ok" and pre[k0][1] != post[1]):
                part.violation(
                    {"history": hist, "data": probe, "frame_kind": k0, "entry": "eval", "first": pre[k0], "after_pure_uses": post},
                    f"{k0}: after printing / comparing / translating / composing the pipeline object, evaluating it on the same input gives a different result: {H.short(hist)}",
                )
        for data in datas:
            nrows = len(data[hist["table"]]["rows"])
            variants = [("pandas", iv, ex) for iv in (INDEX_VARIANTS if nrows > 0 else ["default"]) for ex in ((False, True) if iv == "default" else (False,))]
            variants += [("polars_eager", "default", False), ("polars_lazy", "default", False)]
            for kind, iv, extra in variants:
                for ename, _ in entry_points(ops, hist, {}, single):
                    if extra and ename not in ("eval", "transform"):
                        continue  # the strict entry points refuse extra columns by design
                    if quick and ename != "eval" and iv not in ("default", "strings", "range_offset"):
                        continue  # quick tier: the other entry points share _table_step with eval; three index kinds there
                    frames = mk_frames(kind, data, iv, extra)
                    before = {k: snap(v) for k, v in frames.items()}
                    ids = {k: id(v) for k, v in frames.items()}
                    thunk = dict(entry_points(ops, hist, frames, single))[ename]
                    part.count("traces_validated_against_impl")
                    try:
                        r1 = thunk()
                        s1 = result_snap(r1)
                        err1 = None
                    except BaseException as e:
                        if isinstance(e, (KeyboardInterrupt, SystemExit)):
                            raise
                        s1, err1 = None, type(e).__name__
                    after = {k: snap(v) for k, v in frames.items()}
                    same_ids = {k: id(v) for k, v in frames.items()} == ids and set(frames) == set(before)
                    case = {"history": hist, "data": data, "frame_kind": kind, "index": iv, "extra_column": extra, "entry": ename}
                    part.outcome((kind, ename, err1 is None))
                    if after != before or not same_ids:
                        changed = [k for k in before if after.get(k) != before[k]]
                        part.violation(dict(case, changed_tables=changed, before=before, after=after), f"{kind}/{ename}: evaluation modified the caller's input frame(s) {changed}: {H.short(hist)}")
                        continue
                    # repeatability - with the pipeline *used* in between in ways that must not change it:
                    # printed, compared, asked for its columns, translated, composed with a table and with a pipeline
                    try:
                        r2 = thunk()
                        s2 = result_snap(r2)
                        err2 = None
                    except BaseException as e:
                        if isinstance(e, (KeyboardInterrupt, SystemExit)):
                            raise
                        s2, err2 = None, type(e).__name__
                    if (err1 is None) != (err2 is None) or (err1 is None and s1 != s2):
                        part.violation(dict(case, first=s1 if err1 is None else err1, second=s2 if err2 is None else err2), f"{kind}/{ename}: evaluating the same pipeline on the same inputs twice gives different results: {H.short(hist)}")
                    if err1 is not None:
                        part.count("raised:" + kind)
        part.sample({"history": H.short(hist), "entry_points": ["eval"] + (["transform", "rrshift", "act_on", "ex"] if single else [])}, limit=1)
    return part.dump()


def run(tier):
    run = core.Run(PROP, tier)
    ex1 = explorer.Explorer(menus.core_menu)
    s1 = ex1.run(1)
    # quick: every other entry of the slice as first step, the whole slice as second step;
    # thorough: the whole slice twice, all inputs, every index variant on every entry point
    ex2 = explorer.Explorer((lambda c, r, d, h: (c19_slice(c, r, d, h)[::2] if d == 0 else c19_slice(c, r, d, h))) if tier == "quick" else c19_slice)
    s2 = ex2.run(2)
    seen = {}
    for s in s1 + s2:
        seen.setdefault(s.key, s.hist)
    hists = core.rotate(list(seen.values()), run.seed)
    for p in core.pmap(work, [(c, list(run.open_findings), tier == "quick") for c in core.chunks(hists, 6)]):
        run.merge(p)
    run.set("states", len(hists))
    run.set("transitions", ex1.stats()["transitions"] + ex2.stats()["transitions"])
    run.assumptions += [
        "pipelines in the menus use no random-number methods",
        "between the two evaluations (Pandas and Polars eager frames, eval entry point) the pipeline object is printed, compared, asked for its columns and methods, translated to two SQL dialects and composed with a table and with another pipeline: none of these may change what it computes",
        "snapshots compare cell values by repr (bit-exact floats, NaN as a value), dtypes, column list, index values and index name; attrs/flags are ignored",
        "act_on / frame >> ops / ex are only driven for single-table pipelines; extra unused input columns only through eval and transform (the strict entry points reject them by design)",
    ]
    return run.finish(
        exhaustive=True,
        rule="every core-menu state at depth <= 1 and every state at depth <= 2 over "
        + "the C19 slice"
        + " x " + ("the empty table, every single row and two two-row tables" if tier == "quick" else "all multisets of <= 2 rows") + " x {Pandas with default / reversed / duplicate / string index and with an extra unused column, Polars eager, Polars lazy} x {eval, transform, ex, frame >> ops, act_on}; each evaluated twice",
    )


def replay(doc):
    c = doc["case"]
    d = work([c["history"]], [])
    for v in d["violations"][:5]:
        print(v["what"])
    return 1 if d["violations"] else 0
