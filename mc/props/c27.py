"""
C27 - windowed and ordered window functions are computed per ordered partition.

Exhaustive enumeration: window function x partition_by in {1, [g], [g, h]} x order_by in
{[x], [y, x], [x, y]} x every subset of the order columns as `reverse` x all small tables over a
row alphabet built so that the three orderings differ, ties on one order column are broken by the
other, a partition key is null, and values contain nulls and a negative number.  Inputs on
which the declared order is not total within a partition are excluded (the reference model
detects ties / nulls in order keys), as the property's precondition says.

Oracle: reference window evaluation of mc/refmodel.py (partition, sort by the declared keys
with the declared reversals, apply the function along that order) for every backend that
supports the function: Pandas always, SQLite where the catalog says 'y', Polars whenever it
returns.  Because every supporting backend is compared with the same reference rows, agreement
between backends follows.
"""

import itertools

from mc import backends, compare, core, diff, inputs
from mc import hist as H
from mc.hist import C, V, O, M, F
from mc.refmodel import R, Ambiguous, Unspecified

PROP = "C27"

COLS = ["g", "h", "x", "y", "v"]
TYPES = {"g": "str", "h": "str", "x": "int", "y": "int", "v": "float"}
ROWS = [
    ("a", "p", 1, 2, 1.0),
    ("a", "p", 2, 1, None),
    ("a", "q", 3, 1, 2.0),
    ("a", "p", 3, 3, 3.0),
    (None, "p", 1, 1, 2.0),
    (None, "p", 2, 2, None),
    ("a", "q", 1, 3, -1.0),
]
ROWS_Q = ROWS[:3] + ROWS[4:6] + ROWS[3:4]

PARTITIONS = [1, ["g"], ["g", "h"]]
ORDERS = [["x"], ["y", "x"], ["x", "y"]]

ORDERED_FNS = [
    ("cumsum", M("cumsum", C("v"))),
    ("cummax", M("cummax", C("v"))),
    ("cummin", M("cummin", C("v"))),
    ("cumprod", M("cumprod", C("v"))),
    ("_row_number", F("_row_number")),
    ("cumcount", M("cumcount", C("v"))),
    ("shift", M("shift", C("v"))),
    ("shift1", M("shift", C("v"), V(1))),
    ("shift-1", M("shift", C("v"), V(-1))),
    ("shift2", M("shift", C("v"), V(2))),
    ("rank", M("rank", C("v"))),
    ("first", M("first", C("v"))),
    ("last", M("last", C("v"))),
    ("bfill", M("bfill", C("v"))),
    ("ffill", M("ffill", C("v"))),
    ("cumsum_x", M("cumsum", C("x"))),
]
GROUP_FNS = [
    ("sum", M("sum", C("v"))),
    ("max", M("max", C("v"))),
    ("min", M("min", C("v"))),
    ("mean", M("mean", C("v"))),
    ("count", M("count", C("v"))),
    ("size", M("size", C("v"))),
    ("_size", F("_size")),
    ("sum1", M("sum", V(1))),
    ("std", M("std", C("v"))),
    ("var", M("var", C("v"))),
    ("median", M("median", C("v"))),
    ("nunique", M("nunique", C("v"))),
]


def subsets(lst):
    out = []
    for n in range(len(lst) + 1):
        out.extend([list(c) for c in itertools.combinations(lst, n)])
    return out


def specs():
    """[(function name, [steps])]"""
    out = []
    for pb in PARTITIONS:
        for name, e in GROUP_FNS:
            out.append((name, [{"op": "extend", "ops": {"z": e}, "partition_by": pb}]))
        for ob in ORDERS:
            for rv in subsets(ob):
                for name, e in ORDERED_FNS:
                    out.append((name, [{"op": "extend", "ops": {"z": e}, "partition_by": pb, "order_by": ob, "reverse": rv}]))
    # the window in context: right after an extend that re-defines its order column, its value column or
    # nothing relevant (the SQL generator may merge the two, the window must see the new values) ...
    CONTEXT_FNS = [f for f in ORDERED_FNS if f[0] in ("cumsum", "_row_number", "shift")]
    prefixes = [
        ("x_reversed", {"op": "extend", "ops": {"x": O("-", V(10), C("x"))}}),
        ("v_doubled", {"op": "extend", "ops": {"v": O("*", C("v"), V(2))}}),
        ("y_reversed", {"op": "extend", "ops": {"y": O("-", V(10), C("y"))}}),
    ]
    for pb in PARTITIONS:
        for ob in ORDERS:
            for rv in ([], [ob[0]]):
                for name, e in CONTEXT_FNS:
                    for pname, pst in prefixes:
                        out.append((name + "@" + pname, [pst, {"op": "extend", "ops": {"z": e}, "partition_by": pb, "order_by": ob, "reverse": rv}]))
    # ... and two consecutive windows over the same partition with different orderings (the builder may merge them)
    OSPECS = [(ob, rv) for ob in ORDERS for rv in subsets(ob)]
    for pb in PARTITIONS[1:2]:
        for (ob1, rv1), (ob2, rv2) in itertools.product(OSPECS, OSPECS):
            if (ob1, rv1) == (ob2, rv2):
                continue
            out.append((
                "_row_number;_row_number",
                [
                    {"op": "extend", "ops": {"z": F("_row_number")}, "partition_by": pb, "order_by": ob1, "reverse": rv1},
                    {"op": "extend", "ops": {"z2": F("_row_number")}, "partition_by": pb, "order_by": ob2, "reverse": rv2},
                ],
            ))
    return out


CONV = {"pandas": "pandas", "sqlite": "sql", "polars_eager": "polars", "polars_lazy": "polars"}
DEVB = {"pandas": "pandas", "sqlite": "sqlite", "polars_eager": "polars", "polars_lazy": "polars"}


def tables(tier):
    if tier == "quick":
        return [inputs.mk(COLS, TYPES, r) for r in inputs.multisets(ROWS_Q, 3)]
    return [inputs.mk(COLS, TYPES, r) for r in inputs.multisets(ROWS, 3)] + [
        inputs.mk(COLS, TYPES, list(r)) for r in itertools.combinations(ROWS, 4)
    ]


def row_orders(t, all_orders):
    if not all_orders or len(t["rows"]) < 2:
        return [t]
    seen = []
    for p in itertools.permutations(t["rows"]):
        if list(p) not in seen:
            seen.append(list(p))
    return [inputs.mk(COLS, TYPES, p) for p in seen]


def work(items, tier, open_ids):
    part = core.Part(open_ids)
    tabs = tables(tier)
    for name, steps in items:
        hist = {"table": "d", "columns": COLS, "steps": list(steps)}
        try:
            ops = H.build(hist)
        except Exception as e:
            part.count("rejected_by_builder:" + name)
            continue
        part.count("window_specs")
        sql_ok = backends.catalog_ok(ops)
        g = backends.gen_sql(ops) if sql_ok else None
        bks = ["pandas", "polars_eager"] + (["sqlite"] if sql_ok else []) + (["polars_lazy"] if tier != "quick" else [])
        for t0 in tabs:
            base = {"d": t0}
            # precondition: the declared order must be total within each partition
            try:
                R("sql", ()).eval(hist, base)
            except Ambiguous:
                part.count("skipped_order_not_total")
                continue
            except Unspecified:
                part.count("skipped_unspecified:" + name)
                continue
            for t in row_orders(t0, tier != "quick"):
                data = {"d": t}
                part.count("inputs")
                for bk in bks:
                    if bk == "pandas":
                        res = backends.run_pandas(ops, data)
                    elif bk == "sqlite":
                        res = backends.run_sql(g[1], data) if g[0] == "ok" else g
                    else:
                        res = backends.run_polars(ops, data, lazy=(bk == "polars_lazy"))
                    part.count("traces_validated_against_impl")
                    v = diff.decide_spec(hist, data, DEVB[bk], res, CONV[bk], part, case_extra={"backend_name": bk, "function": name}, raise_ok=bk.startswith("polars"))
                    part.outcome((name, bk, v))
                    if v == "agree":
                        part.count("agree_fn:" + name.split("@")[0] + ":" + DEVB[bk])
                    if v == "agree" and len(t["rows"]) == 3:
                        part.sample({"history": H.short(hist), "rows": t["rows"], "backend": bk, "z": [r[-1] for r in res[2]]}, limit=1)
    return part.dump()


def run(tier):
    run = core.Run(PROP, tier)
    items = core.rotate(specs(), run.seed)
    for p in core.pmap(work, [(c, tier, list(run.open_findings)) for c in core.chunks(items, 6)]):
        run.merge(p)
    run.set("states", len(items))
    run.set("transitions", run.cov.get("inputs", 0))
    # vacuity guard: which (function, backend) pairs were actually compared
    fn_cov = {k[len("agree_fn:"):]: v for k, v in run.cov.items() if k.startswith("agree_fn:")}
    for k in list(run.cov):
        if k.startswith("agree_fn:"):
            del run.cov[k]
    run.assumptions += [
        "table d(g,h,x,y,v): g,h partition keys (g nullable), x,y integer order keys, v nullable float value; row alphabet in mc/props/c27.py",
        "reference semantics (mc/refmodel.py window_fn): cumulative functions carry the running value over missing cells (SQL window aggregates), shift moves values along the declared order, first/last/bfill/ffill/rank/cumcount as named; outcomes the documentation does not settle (first/last landing on a missing cell, rank with ties, cumcount on a missing cell, unordered aggregates under an order) are excluded and counted",
        "SQLite is compared only for pipelines whose methods the catalog marks 'y'; a Polars exception is accepted and counted",
    ]
    return run.finish(
        exhaustive=True,
        rule=f"{len(ORDERED_FNS)} ordered window functions x 3 partition specs x 3 order specs x every reverse subset, plus {len(GROUP_FNS)} group aggregates x 3 partition specs, each on all multisets of <= 3 rows"
        + (" (and all 4-row subsets, every row order of every table)" if tier != "quick" else "")
        + " over the row alphabet on which the declared order is total within every partition; plus cumsum / _row_number / shift windows right after an extend that re-defines the order column, the value column or another column, and all pairs of consecutive _row_number windows over [g] with different orderings",
        extra={"agreeing_cases_per_function_and_backend": fn_cov},
    )


def replay(doc):
    c = doc["case"]
    hist, data = c["history"], c["data"]
    ops = H.build(hist)
    print(H.short(hist))
    bk = c.get("backend_name", "pandas")
    if bk == "pandas":
        res = backends.run_pandas(ops, data)
    elif bk == "sqlite":
        g = backends.gen_sql(ops)
        print(g[1])
        res = backends.run_sql(g[1], data) if g[0] == "ok" else g
    else:
        res = backends.run_polars(ops, data, lazy=(bk == "polars_lazy"))
    print("input", data["d"]["rows"])
    print(bk, compare.brief(res))
    part = core.Part([f["id"] for f in core.load_findings() if f["status"] == "open"])
    v = diff.decide_spec(hist, data, DEVB[bk], res, CONV[bk], part, raise_ok=bk.startswith("polars"))
    print("verdict:", v)
    return 1 if v == "violation" else 0
