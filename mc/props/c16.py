"""
C16 - natural_join matches SQL join semantics on every backend.

Exhaustive input enumeration: 5 join types x key specifications (same-named key, differently
named key, two keys, no keys) x result-column selections (which drive the SQL 'using' pruning of
the join) x ALL pairs of small tables with duplicate keys, null keys on either side, empty sides
and null / non-null combinations in the shared non-key column, on Pandas, Polars eager, Polars
lazy, SQLite-dialect SQL and PostgreSQL-dialect SQL text (native RIGHT/FULL JOIN) run on the
SQLite engine.

Oracle: the reference join of mc/refmodel.py, itself compared on every single case with a
hand-written native SQL join executed on SQLite (the property's observe_at).
"""

import itertools

from mc import backends, compare, core, diff, inputs
from mc import hist as H
from mc.refmodel import R

PROP = "C16"

L_COLS = ["g", "x", "y"]
L_TYPES = {"g": "str", "x": "int", "y": "float"}

# key specification -> (right columns, right types, right row alphabet, on)
SPECS = {
    "same_key": (["g", "w", "y"], {"g": "str", "w": "int", "y": "float"}, inputs.E_ROWS, ["g"]),
    "renamed_key": (["k", "w", "y"], {"k": "str", "w": "int", "y": "float"}, inputs.E_ROWS, [["g", "k"]]),
    "two_keys": (
        ["g", "x", "y"],
        {"g": "str", "x": "int", "y": "float"},
        [("a", 1, None), ("a", 2, 5.0), (None, 2, 2.0), ("b", None, 1.0)],
        ["g", "x"],
    ),
    "no_keys": (["g", "w", "y"], {"g": "str", "w": "int", "y": "float"}, inputs.E_ROWS, []),
    # the left key x is joined to the right column k, while the right table also has a (non-key) column x:
    # x and g are shared columns that are not same-name key pairs, so both are coalesced left then right
    "left_key_is_right_column": (["g", "k", "x"], {"g": "str", "k": "int", "x": "int"}, [("a", 1, 7), ("a", 2, None), (None, 1, 8), ("c", 3, 9)], [["x", "k"]]),
}
SPECS_Q_ROWS = {
    "same_key": inputs.E_ROWS_Q,
    "renamed_key": inputs.E_ROWS_Q,
    "two_keys": [("a", 1, None), (None, 2, 2.0), ("a", None, 1.0)],
    "no_keys": inputs.E_ROWS_Q,
    "left_key_is_right_column": [("a", 1, 7), ("a", 2, None), (None, 1, 8)],
}
JOINTYPES = ["INNER", "LEFT", "RIGHT", "FULL", "CROSS"]


def out_columns(spec):
    rc = SPECS[spec][0]
    return L_COLS + [c for c in rc if c not in L_COLS]


def suffixes(spec):
    """column selections after the join (None = all columns): each column alone and the key + shared pair"""
    oc = out_columns(spec)
    sel = [None] + [[c] for c in oc] + [["g", "y"]]
    return sel


def mk_hist(spec, jt, sel):
    rc, rt, _, on = SPECS[spec]
    st = {"op": "natural_join", "b": {"table": "e", "columns": list(rc), "steps": []}, "on": on, "jointype": jt}
    steps = [st]
    if sel is not None:
        steps.append({"op": "select_columns", "columns": list(sel)})
    return {"table": "d", "steps": steps}


def native_sql(spec, jt, sel):
    """the corresponding standard SQL join, written by hand"""
    rc, rt, _, on = SPECS[spec]
    oc = out_columns(spec)
    q = lambda s: '"' + s + '"'
    terms = []
    for c in oc if sel is None else sel:
        if c in L_COLS and c in rc:
            terms.append(f"COALESCE(l.{q(c)}, r.{q(c)}) AS {q(c)}")
        elif c in L_COLS:
            terms.append(f"l.{q(c)} AS {q(c)}")
        else:
            terms.append(f"r.{q(c)} AS {q(c)}")
    on_a = [o[0] if isinstance(o, list) else o for o in on]
    on_b = [o[1] if isinstance(o, list) else o for o in on]
    if jt == "CROSS":
        j = "CROSS JOIN"
        cond = ""
    else:
        j = {"INNER": "INNER JOIN", "LEFT": "LEFT OUTER JOIN", "RIGHT": "RIGHT OUTER JOIN", "FULL": "FULL OUTER JOIN"}[jt]
        cond = " ON " + (" AND ".join(f"l.{q(a)} = r.{q(b)}" for a, b in zip(on_a, on_b)) if on else "1 = 1")
    return f"SELECT {', '.join(terms)} FROM {q('d')} l {j} {q('e')} r{cond}"


def combos():
    out = []
    for spec in SPECS:
        for jt in JOINTYPES:
            if jt == "CROSS" and spec != "no_keys":
                continue
            for sel in suffixes(spec):
                out.append((spec, jt, sel))
    return out


BACKENDS = ["pandas", "polars_eager", "polars_lazy", "sqlite", "pgtext@sqlite"]
DEV_BACKEND = {"pandas": "pandas", "polars_eager": "polars", "polars_lazy": "polars", "sqlite": "sqlite", "pgtext@sqlite": "pgtext"}


def sql_raise_finding(bk, res, spec, jt):
    """narrow matchers for listed findings whose symptom is a refusal to translate"""
    if bk == "sqlite" and res[0] == "raise" and res[1] == "AssertionError" and jt == "FULL":
        if spec in ("renamed_key", "left_key_is_right_column"):
            return "sqlite.full_join_needs_same_key_names"
        if spec == "no_keys":
            return "sqlite.full_join_needs_keys"
    return None


def work(items, cfg, open_ids):
    part = core.Part(open_ids)
    for spec, jt, sel in items:
        rc, rt, ralpha, on = SPECS[spec]
        if cfg["quick_rows"]:
            ralpha = SPECS_Q_ROWS[spec]
            lalpha = inputs.D_ROWS_Q
        else:
            lalpha = inputs.D_ROWS
        hist = mk_hist(spec, jt, sel)
        ops = H.build(hist)
        sqls = {"sqlite": backends.gen_sql(ops), "pgtext@sqlite": backends.gen_sql(ops, model=backends.pg_model())}
        nsql = native_sql(spec, jt, sel)
        part.count("join_pipelines")
        for lrows in inputs.multisets(lalpha, cfg["kl"]):
            for rrows in inputs.multisets(ralpha, cfg["kr"]):
                data = {"d": inputs.mk(L_COLS, L_TYPES, lrows), "e": inputs.mk(rc, rt, rrows)}
                part.count("input_pairs")
                ref = R("sql", ()).eval(hist, data)
                nat = backends.run_sql(nsql, data)
                if not diff.results_equal(hist, ref, nat):
                    raise RuntimeError(f"harness error: reference join disagrees with the native SQL join: {nsql} on {data}: R={ref} native={nat}")
                part.count("reference_validated_against_native_sql")
                part.outcome((jt, spec, len(ref[2])))
                for bk in BACKENDS:
                    if bk == "pandas":
                        res = backends.run_pandas(ops, data)
                    elif bk == "polars_eager":
                        res = backends.run_polars(ops, data, lazy=False)
                    elif bk == "polars_lazy":
                        res = backends.run_polars(ops, data, lazy=True)
                    else:
                        g = sqls[bk]
                        res = backends.run_sql(g[1], data) if g[0] == "ok" else g
                    part.count("traces_validated_against_impl")
                    fid = sql_raise_finding(bk, res, spec, jt)
                    if fid is not None and part.is_open(fid):
                        part.known(fid, example={"history": H.short(hist), bk: compare.brief(res)})
                        continue
                    v = diff.decide_spec(hist, data, DEV_BACKEND[bk], res, "sql", part, case_extra={"backend_name": bk, "native_sql": nsql})
                    if v == "agree":
                        part.sample({"history": H.short(hist), "d": lrows, "e": rrows, "rows": len(ref[2])}, limit=1)
    return part.dump()


def run(tier):
    run = core.Run(PROP, tier)
    cfg = {"kl": 2, "kr": 2, "quick_rows": True} if tier == "quick" else {"kl": 3, "kr": 3, "quick_rows": False}
    items = core.rotate(combos(), run.seed)
    for p in core.pmap(work, [([it], cfg, list(run.open_findings)) for it in items]):
        run.merge(p)
    run.set("states", len(items))
    run.set("transitions", run.cov.get("input_pairs", 0))
    run.assumptions += [
        "tables: left d(g,x,y); right e(g|k,w|x,y) with a shared non-key column y; row alphabets of mc/inputs.py (duplicate keys, null keys on both sides, null and non-null shared values)",
        "the reference join (mc/refmodel.py s_natural_join) is compared with a hand-written native SQL join on SQLite on every case; a disagreement aborts the run as a harness error",
        "pgtext@sqlite = PostgreSQL-dialect SQL text (native RIGHT/FULL JOIN) executed on the SQLite engine; it is not a PostgreSQL server",
    ]
    return run.finish(
        exhaustive=True,
        rule=f"5 join types x 5 key specifications (CROSS only without keys) x result-column selections (all, each single column, key+shared) x all pairs of multisets of <= {cfg['kl']} left rows and <= {cfg['kr']} right rows over the row alphabets, on 5 executors",
    )


def replay(doc):
    c = doc["case"]
    hist, data = c["history"], c["data"]
    ops = H.build(hist)
    print(H.short(hist))
    ref = R("sql", ()).eval(hist, data)
    print("reference", compare.brief(ref))
    bk = c.get("backend_name", "pandas")
    if bk == "pandas":
        res = backends.run_pandas(ops, data)
    elif bk.startswith("polars"):
        res = backends.run_polars(ops, data, lazy=bk.endswith("lazy"))
    else:
        g = backends.gen_sql(ops, model=(backends.pg_model() if bk.startswith("pg") else None))
        print(g[1])
        res = backends.run_sql(g[1], data) if g[0] == "ok" else g
    print(bk, compare.brief(res))
    part = core.Part([f["id"] for f in core.load_findings() if f["status"] == "open"])
    v = diff.decide_spec(hist, data, DEV_BACKEND[bk], res, "sql", part)
    print("verdict:", v)
    return 1 if v == "violation" else 0
