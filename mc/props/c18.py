"""
C18 - results ignore input row order and input index; order_rows orders and limits.

Explicit-state BFS over the real builder; every explored pipeline x every *sequence* of <= k
input rows (i.e. every multiset in every row order) x Pandas index variants x backends.

Oracles (no reference model decides a verdict):
  * metamorphic: all orderings / re-indexings of the same multiset must give the same result
    multiset on the same backend (and the same order-key sequence after a final order_rows);
    the Pandas result index must be the default RangeIndex;
  * final order_rows: the order-key sequence is sorted (declared directions; null placement
    free); with limit n it equals the first n keys of the same pipeline without the limit on
    the same backend, and every returned row is one of that pipeline's rows.
The reference model R is used only to *exclude* inputs whose answer is undetermined (ties or
nulls in a window order, a limit cutting a tie group), as the property's precondition says.
"""

import itertools
from collections import Counter

from mc import backends, compare, core, diff, explorer, inputs, menus
from mc import hist as H
from mc.props import c19
from mc.refmodel import R, Ambiguous, Unspecified

PROP = "C18"

INDEX_VARIANTS = c19.INDEX_VARIANTS


def sequences(alphabet, k):
    out = []
    for n in range(k + 1):
        out.extend(itertools.product(alphabet, repeat=n))
    return [list(s) for s in out]


def groups_of(alphabet, k):
    """multiset key -> list of row sequences (all orderings)"""
    g = {}
    for s in sequences(alphabet, k):
        g.setdefault(tuple(sorted(s, key=repr)), []).append(s)
    return g


def determined(hist, data):
    """False if the answer depends on row order under either null placement convention"""
    for dev in ((), ("sqlite.order_nulls_first",)):
        try:
            R("sql", dev).eval(hist, data)
        except Ambiguous:
            return False
        except Unspecified:
            return None
        except Exception:
            return None  # the reference model cannot interpret the pipeline (e.g. ill-typed arithmetic): no verdict
    return True


def pandas_eval(ops, data, variant):
    """-> result tuple plus index-is-default flag"""
    import pandas

    try:
        dm = {}
        for k, t in data.items():
            df = inputs.to_pandas(t)
            idx = INDEX_VARIANTS[variant](df.shape[0])
            if idx is not None and df.shape[0] > 0:
                df.index = idx
                df.index.name = "myindex"
            dm[k] = df
        res = ops.eval(dm)
        ok_index = isinstance(res.index, pandas.RangeIndex) and res.index.start == 0 and res.index.step == 1 and res.index.name is None
        if not ok_index:
            ok_index = list(res.index) == list(range(res.shape[0])) and res.index.name is None
        return backends.frame_result(res), ok_index
    except Exception as e:
        return backends._exc(e), True


def run_backend(bk, ops, sql, data):
    if bk == "polars_eager":
        return backends.run_polars(ops, data, lazy=False)
    if bk == "polars_lazy":
        return backends.run_polars(ops, data, lazy=True)
    if bk == "sqlite":
        return backends.run_sql(sql[1], data) if sql[0] == "ok" else sql
    raise ValueError(bk)


def sorted_ok(keys, reverse_flags):
    """is the key-tuple sequence sorted for some null placement (first/last per column)?"""
    ncol = len(reverse_flags)
    for placement in itertools.product(("first", "last"), repeat=ncol):
        def sk(t):
            out = []
            for v, rv, pl in zip(t, reverse_flags, placement):
                if v is None:
                    out.append((0 if pl == "first" else 2, 0))
                else:
                    if isinstance(v, bool):
                        v = int(v)
                    if isinstance(v, str):
                        # strings: compare by code points, direction handled below
                        out.append((1, v))
                    else:
                        out.append((1, v))
            return out

        ok = True
        for a, b in zip(keys, keys[1:]):
            ka, kb = sk(a), sk(b)
            # lexicographic with per-column direction
            for (ca, va), (cb, vb), rv in zip(ka, kb, reverse_flags):
                if ca != cb:
                    if ca > cb:
                        ok = False
                    break
                if ca != 1 or va == vb:
                    continue
                less = va < vb
                if rv:
                    less = not less
                if not less:
                    ok = False
                break
            if not ok:
                break
        if ok:
            return True
    return False


def check_final_order(hist, res, res_nolimit, part, case, bk):
    st = hist["steps"][-1]
    cols = list(st["columns"])
    rv = [c in (st.get("reverse") or []) for c in cols]
    if res[0] != "ok":
        return
    try:
        keys = [tuple(r) for r in compare.project_cols(res, cols)[2]]
    except KeyError:
        return
    part.count("order_checks")
    if not sorted_ok(keys, rv):
        part.violation(dict(case, result=compare.brief(res)), f"{bk}: result of a final order_rows is not sorted by {cols} reverse={st.get('reverse')}: {H.short(hist)}")
        return
    lim = st.get("limit")
    if lim is not None and res_nolimit is not None and res_nolimit[0] == "ok":
        part.count("limit_checks")
        full_keys = [tuple(r) for r in compare.project_cols(res_nolimit, cols)[2]]
        want = full_keys[:lim]
        same_keys = len(keys) == len(want) and all(compare.row_eq(a, b) for a, b in zip(keys, want))
        # rows must come from the un-limited result
        rb = compare._align(res, res_nolimit)
        pool = Counter(tuple(compare._key(v) for v in r) for r in (rb or []))
        got = Counter(tuple(compare._key(v) for v in r) for r in res[2])
        sub = rb is not None and all(pool[k] >= n for k, n in got.items())
        if not same_keys or not sub:
            part.violation(
                dict(case, result=compare.brief(res), without_limit=compare.brief(res_nolimit)),
                f"{bk}: order_rows(limit={lim}) does not return the first {lim} rows of the order: {H.short(hist)}",
            )


def work(hists, cfg, open_ids):
    part = core.Part(open_ids)
    for hist in hists:
        ops = H.build(hist)
        part.count("states_evaluated")
        tabs = H.hist_tables(hist)
        sql = backends.gen_sql(ops) if backends.catalog_ok(ops) else ("raise", "outside catalog", "")
        final_order = bool(hist["steps"]) and hist["steps"][-1]["op"] == "order_rows"
        ops_nl = sql_nl = None
        if final_order and hist["steps"][-1].get("limit") is not None:
            h2 = dict(hist, steps=hist["steps"][:-1] + [dict(hist["steps"][-1], limit=None)])
            ops_nl = H.build(h2)
            sql_nl = backends.gen_sql(ops_nl) if sql[0] == "ok" else sql
        two = len(tabs) > 1
        dgroups = groups_of(cfg["d_rows"], cfg["kd2"] if two else cfg["kd"])
        egroups = groups_of(cfg["e_rows"], cfg["ke"]) if "e" in tabs else {(): [[]]}
        bks = cfg["backends"]
        stop = False
        for dk, dseqs in dgroups.items():
            for ek, eseqs in egroups.items():
                def mkdata(ds, es):
                    data = {}
                    for t in tabs:
                        if t == "d":
                            data["d"] = inputs.mk(["g", "x", "y"], inputs.D_TYPES, ds)
                        else:
                            data["e"] = inputs.mk(["g", "w", "y"], inputs.E_TYPES, es)
                    return data

                base = mkdata(dseqs[0], eseqs[0])
                det = determined(hist, base)
                if det is not True:
                    part.count("skipped_order_dependent" if det is False else "skipped_unspecified")
                    continue
                part.count("multisets_checked")
                variants = [(ds, es) for ds in dseqs for es in eseqs]
                ref = {}
                for vi, (ds, es) in enumerate(variants):
                    data = mkdata(ds, es)
                    nrows = max(len(ds), len(es))
                    runs = []
                    for iv in (INDEX_VARIANTS if (nrows > 0 and (vi == 0 or cfg["index_all"])) else ["default"]):
                        runs.append(("pandas", iv))
                    for bk in bks:
                        runs.append((bk, None))
                    for bk, iv in runs:
                        if bk == "pandas":
                            res, ok_index = pandas_eval(ops, data, iv)
                        else:
                            res, ok_index = run_backend(bk, ops, sql, data), True
                        part.count("traces_validated_against_impl")
                        case = {"history": hist, "data": data, "backend": bk, "index": iv}
                        if not ok_index:
                            part.violation(dict(case, result=compare.brief(res)), f"pandas: the result does not carry the default index (input index '{iv}' leaked): {H.short(hist)}")
                            stop = True
                            break
                        if bk not in ref:
                            ref[bk] = (res, data, iv)
                            part.outcome((bk, res[0], len(res[2]) if res[0] == "ok" else res[1]))
                            if final_order:
                                rnl = None
                                if ops_nl is not None:
                                    rnl = pandas_eval(ops_nl, data, iv)[0] if bk == "pandas" else run_backend(bk, ops_nl, sql_nl, data)
                                check_final_order(hist, res, rnl, part, case, bk)
                            continue
                        r0, d0, iv0 = ref[bk]
                        if r0[0] == "raise" and res[0] == "raise":
                            continue
                        part.count("permutation_comparisons")
                        if not diff.results_equal(hist, r0, res):
                            part.violation(
                                dict(case, first_order={"data": d0, "index": iv0, "result": compare.brief(r0)}, this_order={"result": compare.brief(res)}),
                                f"{bk}: the same rows in another order / with another index give a different result: {H.short(hist)}",
                            )
                            stop = True
                            break
                    if stop:
                        break
                if stop:
                    break
            if stop:
                break
        part.sample({"history": H.short(hist), "multisets": len(dgroups) * len(egroups)}, limit=1)
    return part.dump()


def c18_slice(cols, roles, depth, hist):
    """windows (sort-and-restore), ordering / limits, and the steps that re-index"""
    items = []
    ext = menus.extend_items(cols, roles)
    items += ext[:1] + ext[-2:]
    win = menus.window_items(cols, roles)
    keep = ("sum", "_size", "cumsum", "shift", "_row_number")
    items += [w for w in win if list(w["ops"].values())[0][1] in keep and not (list(w["ops"].values())[0][0] == "m" and list(w["ops"].values())[0][2][0] == "v")]
    pr = menus.project_items(cols, roles)
    items += [p for p in pr if list(p["ops"].values())[:1] and list(p["ops"].values())[0][1] in ("sum", "_size")][:4]
    items += menus.select_rows_items(cols, roles)[:1]
    ci = menus.column_items(cols, roles)
    items += [c for c in ci if c["op"] in ("drop_columns", "rename_columns")][:2]
    items += [o for o in menus.order_items(cols, roles) if o["limit"] in (None, 1)]
    if depth == 0:
        items += menus.join_items(cols, roles, depth, jointypes=("LEFT", "FULL"), rights=[menus.E_HIST])
        items += menus.concat_items(cols, roles, depth)[:2]
        items += menus.cdata_items(cols, roles)
    return items


def final_request(hist):
    """what the history asks of the result's order: the last step if it is an order_rows"""
    import json

    if hist["steps"] and hist["steps"][-1]["op"] == "order_rows":
        return json.dumps(hist["steps"][-1], sort_keys=True)
    return ""


def run(tier):
    run = core.Run(PROP, tier)
    if tier == "quick":
        cfg = {"kd": 3, "kd2": 2, "ke": 1, "d_rows": inputs.D_ROWS_Q, "e_rows": inputs.E_ROWS_Q, "backends": ["polars_eager", "sqlite"], "index_all": False}
        ex1 = explorer.Explorer(menus.core_menu, key_extra=final_request)
        s1 = ex1.run(1)
        ex2 = explorer.Explorer(c18_slice, key_extra=final_request)
        s2 = ex2.run(2)
    else:
        cfg = {"kd": 3, "kd2": 2, "ke": 2, "d_rows": inputs.D_ROWS_Q + [("b", 1, 2.0)], "e_rows": inputs.E_ROWS_Q, "backends": ["polars_eager", "polars_lazy", "sqlite"], "index_all": True}
        ex1 = explorer.Explorer(menus.core_menu, key_extra=final_request)
        s1 = ex1.run(1)
        ex2 = explorer.Explorer(c18_slice, key_extra=final_request)
        s2 = ex2.run(2)
    seen = {}
    for s in s1 + s2:
        seen.setdefault(s.key, s.hist)
    hists = core.rotate(list(seen.values()), run.seed)
    for p in core.pmap(work, [(c, cfg, list(run.open_findings)) for c in core.chunks(hists, 8)]):
        run.merge(p)
    run.set("states", len(hists))
    run.set("transitions", ex1.stats()["transitions"] + ex2.stats()["transitions"])
    run.assumptions += [
        "inputs whose answer is undetermined (ties or nulls in a window order key, a limit cutting a group of distinguishable tied rows, under nulls-first or nulls-last placement) are excluded by the reference model and counted, as the property's precondition states",
        "null placement in order_rows is not prescribed by the property and is not judged here",
        "states are merged on the built pipeline *and* the final order_rows request of the history, so two histories the builder maps to one pipeline are both judged against what they asked for",
        "a backend that raises on one ordering must raise on all (raise vs raise is not compared further)",
    ]
    return run.finish(
        exhaustive=True,
        rule=f"every state at depth <= {'1 over the core menu and <= 2 over the ordering/window slice' if tier == 'quick' else '1 over the core menu and <= 2 over the ordering/window slice (4-row alphabet, every index variant on every ordering, lazy frames too)'} x every sequence (all row orders of every multiset) of <= {cfg['kd']} rows of d (<= {cfg['kd2']} x <= {cfg['ke']} rows of e for two-table pipelines) x Pandas index variants (default, reversed, duplicate labels, strings) x backends {['pandas'] + cfg['backends']}",
    )


def replay(doc):
    c = doc["case"]
    cfgq = {"kd": 3, "kd2": 2, "ke": 1, "d_rows": inputs.D_ROWS_Q + [("b", 1, 2.0)], "e_rows": inputs.E_ROWS_Q, "backends": ["polars_eager", "polars_lazy", "sqlite"], "index_all": True}
    d = work([c["history"]], cfgq, [])
    for v in d["violations"][:5]:
        print(v["what"])
    return 1 if d["violations"] else 0
