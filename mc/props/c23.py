"""
C23 - connected_components labels each edge by its component's least vertex.

All edge lists up to a length over 4 vertices, for three vertex types, against a union-find
reference; plus the pipeline entry points (connected_components(f, g) / f.co_equalizer(g)).
"""

import itertools
import os

from mc import core

PROP = "C23"

VERTEX_TYPES = {
    "int": [0, 1, 2, 3],
    "str": ["a", "b", "c", "d"],
    "mixed_num": [-1, 0.5, 2, 10],
}


def reference(f, g):
    parent = {}

    def find(a):
        while parent[a] != a:
            parent[a] = parent[parent[a]]
            a = parent[a]
        return a

    for v in list(f) + list(g):
        parent.setdefault(v, v)
    for a, b in zip(f, g):
        ra, rb = find(a), find(b)
        if ra != rb:
            parent[ra] = rb
    comp = {}
    for v in parent:
        comp.setdefault(find(v), []).append(v)
    least = {}
    for r, vs in comp.items():
        m = min(vs)
        for v in vs:
            least[v] = m
    return [least[a] for a in f]


def work(vt, first_edges, maxlen):
    """All edge lists of length 1..maxlen whose first edge is in first_edges (plus the empty list once)."""
    from data_algebra.connected_components import connected_components

    part = core.Part([])
    verts = VERTEX_TYPES[vt]
    edges = list(itertools.product(verts, repeat=2))
    n = 0
    for e0 in first_edges:
        for k in range(0, maxlen):
            for rest in itertools.product(edges, repeat=k):
                el = (e0,) + rest
                f = [e[0] for e in el]
                g = [e[1] for e in el]
                got = connected_components(f, g)
                want = reference(f, g)
                n += 1
                if list(got) != want:
                    part.violation({"vertex_type": vt, "f": f, "g": g, "got": list(got), "want": want}, f"connected_components({f}, {g}) = {list(got)}, expected {want}")
                elif n % 5000 == 1:
                    part.outcome((len(el), len(set(want))))
    part.count("evaluations", n)
    part.sample({"vertex_type": vt, "f": [e[0] for e in (first_edges[0],)], "g": [e[1] for e in (first_edges[0],)]}, limit=1)
    return part.dump()


FOREST_N = 8


def forest_work(prefix, maxlen):
    """Deeper slice by symmetry reduction: every edge list of length <= maxlen over <= 8 vertices in
    which each edge joins two different components (a forest-building history, the only edges that
    change the algorithm's state), enumerated up to vertex renaming (vertices numbered by first
    appearance), each under two labelings: ascending and descending by first appearance."""
    from data_algebra.connected_components import connected_components

    part = core.Part([])
    N = FOREST_N
    n = 0

    def visit(f, g):
        nonlocal n
        for lab in (0, 1):
            ff = [N - 1 - v for v in f] if lab else f
            gg = [N - 1 - v for v in g] if lab else g
            got = connected_components(ff, gg)
            want = reference(ff, gg)
            n += 1
            if list(got) != want:
                part.violation({"vertex_type": "int", "f": list(ff), "g": list(gg), "got": list(got), "want": want}, f"connected_components({list(ff)}, {list(gg)}) = {list(got)}, expected {want}")

    def rec(f, g, nv, comp):
        if f:
            visit(f, g)
        if len(f) == maxlen:
            return
        for a in range(min(nv + 1, N)):
            nv1 = max(nv, a + 1)
            for b in range(min(nv1 + 1, N)):
                if b == a:
                    continue
                nv2 = max(nv1, b + 1)
                c = comp + list(range(len(comp), nv2))
                if c[a] == c[b]:
                    continue
                ca, cb = c[a], c[b]
                rec(f + [a], g + [b], nv2, [ca if x == cb else x for x in c])

    # replay the prefix (must itself be canonical and forest-building)
    comp, nv = [], 0
    for a, b in prefix:
        nv = max(nv, a + 1, b + 1)
        comp = comp + list(range(len(comp), nv))
        ca, cb = comp[a], comp[b]
        assert ca != cb
        comp = [ca if x == cb else x for x in comp]
    rec([a for a, _ in prefix], [b for _, b in prefix], nv, comp)
    part.count("forest_evaluations", n)
    return part.dump()


def forest_prefixes(k):
    out = []

    def rec(pre, nv, comp):
        if len(pre) == k:
            out.append(list(pre))
            return
        for a in range(min(nv + 1, FOREST_N)):
            nv1 = max(nv, a + 1)
            for b in range(min(nv1 + 1, FOREST_N)):
                if b == a:
                    continue
                nv2 = max(nv1, b + 1)
                c = comp + list(range(len(comp), nv2))
                if c[a] == c[b]:
                    continue
                ca, cb = c[a], c[b]
                rec(pre + [(a, b)], nv2, [ca if x == cb else x for x in c])

    rec([], 0, [])
    return out


def pipeline_cases(run, maxlen):
    """connected_components through the expression entry points, on Pandas."""
    import pandas
    from data_algebra.data_ops import descr

    n = 0
    # all three vertex types: an executor may route non-numeric vertex columns differently (C23-r4m2)
    for verts in ([0, 1, 2], ["a", "b", "c"], [-1, 0.5, 2]):
        edges = list(itertools.product(verts, repeat=2))
        for k in range(1, maxlen + 1):
            for el in itertools.product(edges, repeat=k):
                f = [e[0] for e in el]
                g = [e[1] for e in el]
                d = pandas.DataFrame({"f": f, "g": g})
                want = reference(f, g)
                for expr in ("connected_components(f, g)", "f.co_equalizer(g)"):
                    ops = descr(d=d).extend({"c": expr})
                    res = ops.transform(d)
                    got = list(res["c"])
                    n += 1
                    run.outcome(("pipeline", tuple(want)))
                    if got != want or list(res["f"]) != f or list(res["g"]) != g:
                        run.violation({"expr": expr, "f": f, "g": g, "got": got, "want": want}, f"extend({{'c': '{expr}'}}) on f={f} g={g} gives {got}, expected {want}")
    run.count("pipeline_evaluations", n)


def run(tier):
    from data_algebra.connected_components import connected_components

    run = core.Run(PROP, tier, level="model_checking")
    maxlen = 4 if tier == "quick" else 6
    tasks = []
    for vt, verts in VERTEX_TYPES.items():
        edges = list(itertools.product(verts, repeat=2))
        for e0 in edges:
            tasks.append((vt, [e0], maxlen))
    for p in core.pmap(work, tasks):
        run.merge(p)
    # the empty edge list
    for vt in VERTEX_TYPES:
        got = connected_components([], [])
        run.count("evaluations")
        if list(got) != []:
            run.violation({"f": [], "g": []}, "empty edge list")
    # forest-building histories up to renaming, 3..7 edges over <= 8 vertices, one task per canonical 3-edge prefix
    # (lists of 1-2 edges are covered by the complete enumeration above)
    fl = int(os.environ.get("VERIF_C23_FOREST_LEN", "7"))
    for p in core.pmap(forest_work, [(pre, fl) for pre in forest_prefixes(3)]):
        run.merge(p)
    pipeline_cases(run, 3 if tier == "quick" else 4)
    run.sample({"f": [1, 4, 6, 2, 1], "g": [2, 5, 7, 3, 7], "labels": reference([1, 4, 6, 2, 1], [2, 5, 7, 3, 7])})
    ev = run.cov.get("evaluations", 0) + run.cov.get("pipeline_evaluations", 0) + run.cov.get("forest_evaluations", 0)
    run.set("evaluations", ev)
    run.set("states", ev)
    run.set("transitions", ev)
    run.set("traces_validated_against_impl", ev)
    run.assumptions += ["vertex values are hashable and totally ordered within one list (ints; strings; ints mixed with floats)"]
    return run.finish(
        exhaustive=True,
        rule=f"every edge list of length <= {maxlen} over 4 vertices (16 possible edges incl. self loops) for 3 vertex types; plus every forest-building edge list (each edge joins two different components) of length <= 7 over <= 8 vertices up to vertex renaming, under the ascending and the descending labelling by first appearance; plus every edge list of length <= {3 if tier=='quick' else 4} over 3 vertices, for the same 3 vertex types, through extend() on Pandas; oracle: union-find labelling by least vertex",
    )


def replay(doc):
    from data_algebra.connected_components import connected_components

    c = doc["case"]
    got = list(connected_components(c["f"], c["g"]))
    want = reference(c["f"], c["g"])
    print("f", c["f"], "g", c["g"], "got", got, "want", want)
    return 0 if got == want else 1
