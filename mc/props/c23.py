"""
C23 - connected_components labels each edge by its component's least vertex.

All edge lists up to a length over 4 vertices, for three vertex types, against a union-find
reference; plus the pipeline entry points (connected_components(f, g) / f.co_equalizer(g)).
"""

import itertools

from mc import core

PROP = "C23"

VERTEX_TYPES = {
    "int": [0, 1, 2, 3],
    "str": ["a", "b", "c", "d"],
    "mixed_num": [-1, 0.5, 2, 10],
}


def reference(f, g):
    parent = {}

    def find(a):
        while parent[a] != a:
            parent[a] = parent[parent[a]]
            a = parent[a]
        return a

    for v in list(f) + list(g):
        parent.setdefault(v, v)
    for a, b in zip(f, g):
        ra, rb = find(a), find(b)
        if ra != rb:
            parent[ra] = rb
    comp = {}
    for v in parent:
        comp.setdefault(find(v), []).append(v)
    least = {}
    for r, vs in comp.items():
        m = min(vs)
        for v in vs:
            least[v] = m
    return [least[a] for a in f]


def work(vt, first_edges, maxlen):
    """All edge lists of length 1..maxlen whose first edge is in first_edges (plus the empty list once)."""
    from data_algebra.connected_components import connected_components

    part = core.Part([])
    verts = VERTEX_TYPES[vt]
    edges = list(itertools.product(verts, repeat=2))
    n = 0
    for e0 in first_edges:
        for k in range(0, maxlen):
            for rest in itertools.product(edges, repeat=k):
                el = (e0,) + rest
                f = [e[0] for e in el]
                g = [e[1] for e in el]
                got = connected_components(f, g)
                want = reference(f, g)
                n += 1
                if list(got) != want:
                    part.violation({"vertex_type": vt, "f": f, "g": g, "got": list(got), "want": want}, f"connected_components({f}, {g}) = {list(got)}, expected {want}")
                elif n % 5000 == 1:
                    part.outcome((len(el), len(set(want))))
    part.count("evaluations", n)
    part.sample({"vertex_type": vt, "f": [e[0] for e in (first_edges[0],)], "g": [e[1] for e in (first_edges[0],)]}, limit=1)
    return part.dump()


def pipeline_cases(run, maxlen):
    """connected_components through the expression entry points, on Pandas."""
    import pandas
    from data_algebra.data_ops import descr

    verts = [0, 1, 2]
    edges = list(itertools.product(verts, repeat=2))
    n = 0
    for k in range(1, maxlen + 1):
        for el in itertools.product(edges, repeat=k):
            f = [e[0] for e in el]
            g = [e[1] for e in el]
            d = pandas.DataFrame({"f": f, "g": g})
            want = reference(f, g)
            for expr in ("connected_components(f, g)", "f.co_equalizer(g)"):
                ops = descr(d=d).extend({"c": expr})
                res = ops.transform(d)
                got = list(res["c"])
                n += 1
                run.outcome(("pipeline", tuple(want)))
                if got != want or list(res["f"]) != f or list(res["g"]) != g:
                    run.violation({"expr": expr, "f": f, "g": g, "got": got, "want": want}, f"extend({{'c': '{expr}'}}) on f={f} g={g} gives {got}, expected {want}")
    run.count("pipeline_evaluations", n)


def run(tier):
    from data_algebra.connected_components import connected_components

    run = core.Run(PROP, tier, level="model_checking")
    maxlen = 4 if tier == "quick" else 6
    tasks = []
    for vt, verts in VERTEX_TYPES.items():
        edges = list(itertools.product(verts, repeat=2))
        for e0 in edges:
            tasks.append((vt, [e0], maxlen))
    for p in core.pmap(work, tasks):
        run.merge(p)
    # the empty edge list
    for vt in VERTEX_TYPES:
        got = connected_components([], [])
        run.count("evaluations")
        if list(got) != []:
            run.violation({"f": [], "g": []}, "empty edge list")
    pipeline_cases(run, 3 if tier == "quick" else 4)
    run.sample({"f": [1, 4, 6, 2, 1], "g": [2, 5, 7, 3, 7], "labels": reference([1, 4, 6, 2, 1], [2, 5, 7, 3, 7])})
    ev = run.cov.get("evaluations", 0) + run.cov.get("pipeline_evaluations", 0)
    run.set("evaluations", ev)
    run.set("states", ev)
    run.set("transitions", ev)
    run.set("traces_validated_against_impl", ev)
    run.assumptions += ["vertex values are hashable and totally ordered within one list (ints; strings; ints mixed with floats)"]
    return run.finish(
        exhaustive=True,
        rule=f"every edge list of length <= {maxlen} over 4 vertices (16 possible edges incl. self loops) for 3 vertex types; plus every edge list of length <= {3 if tier=='quick' else 4} over 3 vertices through extend() on Pandas; oracle: union-find labelling by least vertex",
    )


def replay(doc):
    from data_algebra.connected_components import connected_components

    c = doc["case"]
    got = list(connected_components(c["f"], c["g"]))
    want = reference(c["f"], c["g"])
    print("f", c["f"], "g", c["g"], "got", got, "want", want)
    return 0 if got == want else 1
