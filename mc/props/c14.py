"""
C14 - generated SQL carries every literal and identifier verbatim.

Exhaustive input enumeration: all strings of length <= 2 (thorough 3) over a 14-symbol hostile
alphabet (the quote characters of every dialect, backslash, newline, tab, percent, the comment
openers, the statement separator, a space, a letter, a non-ASCII letter) x 10 injection sites
(string literal in extend / select_rows / is_in list / mapv key / mapv value, concat_rows
source labels, table name, column name, record-map control-table key values in both
directions) x 5 dialect models x annotation comments on / off.

Oracles:
  * SQLite: the SQL is executed on a small table and the value / name is read back; it must be
    exactly the probe string.
  * every dialect: the generated text is tokenised by a lexer model of that dialect's literal,
    identifier and comment syntax; (a) the token skeleton must equal the skeleton obtained with
    a benign probe at the same site (no user text changed the structure of the query) and
    (b) the token at the site must decode to exactly the probe string.
  * names containing the dialect's own identifier quote are excluded by the property: they must
    be rejected when the SQL is generated.
The lexer models are part of the trusted base; for the SQLite dialect they are cross-checked
against the real engine on every case (a disagreement aborts the run).
"""

import itertools

from mc import backends, compare, core, inputs

PROP = "C14"

ALPHABET = ["'", '"', "`", "\\", "\n", "\t", "%", "-", "/", "*", ";", " ", "a", "é"]
BENIGN = "q7x"

DIALECTS = ["SQLite", "PostgreSQL", "MySQL", "SparkSQL", "BigQuery"]
STRING_QUOTES = {"SQLite": "'", "PostgreSQL": "'", "MySQL": "'\"", "SparkSQL": "'\"", "BigQuery": "'\""}
IDENT_QUOTE = {"SQLite": '"', "PostgreSQL": '"', "MySQL": "`", "SparkSQL": "`", "BigQuery": "`"}
BACKSLASH = {"SQLite": False, "PostgreSQL": False, "MySQL": True, "SparkSQL": True, "BigQuery": True}
DOUBLING = {"SQLite": True, "PostgreSQL": True, "MySQL": True, "SparkSQL": False, "BigQuery": False}
_ESC = {"n": "\n", "t": "\t", "r": "\r", "0": "\0", "b": "\b", "Z": "\x1a", "a": "\a", "f": "\f", "v": "\v"}


def probes(k):
    out = []
    for n in range(0, k + 1):
        out.extend("".join(p) for p in itertools.product(ALPHABET, repeat=n))
    return out


def lex(sql, dialect):
    """-> list of (kind, value); kinds: word, punct, string, ident, comment, error"""
    toks = []
    i, n = 0, len(sql)
    sq, iq, bs, dbl = STRING_QUOTES[dialect], IDENT_QUOTE[dialect], BACKSLASH[dialect], DOUBLING[dialect]
    while i < n:
        c = sql[i]
        if c.isspace():
            i += 1
            continue
        if sql.startswith("--", i) and (dialect != "MySQL" or i + 2 >= n or sql[i + 2].isspace()):
            j = sql.find("\n", i)
            j = n if j < 0 else j
            toks.append(("comment", sql[i:j]))
            i = j
            continue
        if dialect in ("MySQL", "BigQuery") and c == "#":
            j = sql.find("\n", i)
            j = n if j < 0 else j
            toks.append(("comment", sql[i:j]))
            i = j
            continue
        if sql.startswith("/*", i):
            j = sql.find("*/", i + 2)
            if j < 0:
                toks.append(("error", "unterminated block comment"))
                return toks
            toks.append(("comment", sql[i : j + 2]))
            i = j + 2
            continue
        if c in sq or c == iq:
            kind = "ident" if c == iq else "string"
            triple = dialect == "BigQuery" and kind == "string" and sql.startswith(c * 3, i)
            j = i + (3 if triple else 1)
            val = []
            closed = False
            while j < n:
                ch = sql[j]
                if bs and kind == "string" and ch == "\\":
                    if j + 1 >= n:
                        break
                    e = sql[j + 1]
                    val.append(_ESC.get(e, e))
                    j += 2
                    continue
                if triple:
                    if sql.startswith(c * 3, j):
                        j += 3
                        closed = True
                        break
                    val.append(ch)
                    j += 1
                    continue
                if ch == c:
                    if (dbl or kind == "ident") and j + 1 < n and sql[j + 1] == c:
                        val.append(c)
                        j += 2
                        continue
                    j += 1
                    closed = True
                    break
                if ch == "\n" and dialect == "BigQuery" and kind == "string":
                    break  # a quoted (non triple-quoted) BigQuery literal cannot span lines
                val.append(ch)
                j += 1
            if not closed:
                toks.append(("error", "unterminated " + kind))
                return toks
            toks.append((kind, "".join(val)))
            i = j
            continue
        if c.isalnum() or c == "_" or ord(c) > 127:
            j = i
            while j < n and (sql[j].isalnum() or sql[j] in "_." or ord(sql[j]) > 127):
                j += 1
            toks.append(("word", sql[i:j]))
            i = j
            continue
        toks.append(("punct", c))
        i += 1
    return toks


def skeleton(toks):
    return [(k, (v if k in ("word", "punct", "error") else None)) for k, v in toks if k != "comment"]


# ------------------------------------------------------------------------------ sites


def models():
    return backends.all_models()


def build_site(site, s):
    """-> (ops, data for SQLite, expectation) ; expectation = ("column_values", col, set of values) | ("column_name", name) | ("rows", n)"""
    import pandas
    import data_algebra.expr_rep as er
    import data_algebra.cdata as cdata
    from data_algebra.data_ops import TableDescription

    other = "zzq"
    g = er.ColumnReference("g")
    base = inputs.mk(["g", "x"], {"g": "str", "x": "int"}, [(s, 1), (other, 2)])
    td = TableDescription(table_name="d", column_names=["g", "x"])
    if site == "literal_extend":
        return td.extend({"r": er.Value(s)}), {"d": base}, ("column_values", "r", [s, s]), "string"
    if site == "literal_select":
        return td.select_rows(g == s), {"d": base}, ("column_values", "g", [s]), "string"
    if site == "literal_is_in":
        return td.extend({"r": g.is_in(er.ListTerm([er.Value(s), er.Value("zz2")]))}).select_rows("r").select_columns(["g"]), {"d": base}, ("column_values", "g", [s]), "string"
    if site == "mapv_key":
        return td.extend({"r": g.mapv(er.DictTerm({s: 1, "zz2": 2}), er.Value(0))}).select_rows("r == 1").select_columns(["g"]), {"d": base}, ("column_values", "g", [s]), "string"
    if site == "mapv_value":
        return td.extend({"r": g.mapv(er.DictTerm({other: s}), er.Value("dflt"))}).select_rows("x == 2").select_columns(["r"]), {"d": base}, ("column_values", "r", [s]), "string"
    if site == "concat_label":
        ops = td.select_rows("x == 2").concat_rows(td.select_rows("x == 2"), id_column="src", a_name=s, b_name=other)
        return ops.select_columns(["src"]), {"d": base}, ("column_values", "src", sorted([s, other])), "string"
    if site == "table_name":
        td2 = TableDescription(table_name=s, column_names=["g", "x"])
        return td2.select_rows("x == 2").select_columns(["x"]), {s: base}, ("column_values", "x", [2]), "ident"
    if site == "column_name":
        t = inputs.mk([s, "x"], {s: "str", "x": "int"}, [("v1", 1), ("v2", 2)])
        td2 = TableDescription(table_name="d", column_names=[s, "x"])
        return td2.select_rows("x == 2").select_columns([s]), {"d": t}, ("column_name", s, ["v2"]), "ident"
    if site == "unpivot_key_value":
        t = inputs.mk(["g", "x", "y"], {"g": "str", "x": "int", "y": "int"}, [("r1", 1, 2)])
        td2 = TableDescription(table_name="d", column_names=["g", "x", "y"])
        rm = cdata.RecordMap(blocks_out=cdata.RecordSpecification(pandas.DataFrame({"k": [s, other], "v": ["x", "y"]}), record_keys=["g"], control_table_keys=["k"]))
        return td2.convert_records(rm).select_columns(["k"]), {"d": t}, ("column_values", "k", sorted([s, other])), "string"
    if site == "pivot_key_value":
        t = inputs.mk(["g", "k", "v"], {"g": "str", "k": "str", "v": "int"}, [("r1", s, 5), ("r1", other, 6)])
        td2 = TableDescription(table_name="d", column_names=["g", "k", "v"])
        rm = cdata.RecordMap(blocks_in=cdata.RecordSpecification(pandas.DataFrame({"k": [s, other], "v": ["x", "y"]}), record_keys=["g"], control_table_keys=["k"]))
        return td2.convert_records(rm).select_columns(["x"]), {"d": t}, ("column_values", "x", [5]), "string"
    raise ValueError(site)


SITES = ["literal_extend", "literal_select", "literal_is_in", "mapv_key", "mapv_value", "concat_label", "table_name", "column_name", "unpivot_key_value", "pivot_key_value"]


def gen(ops, dialect, annotate):
    from data_algebra.sql_format_options import SQLFormatOptions

    fo = SQLFormatOptions(annotate=annotate, warn_on_method_support=False, warn_on_novel_methods=False)
    return backends.gen_sql(ops, model=models()[dialect], sql_format_options=fo)


def classify(site, s, dialect, what):
    """narrow matchers of listed findings; none is open (the quoting defects found were repaired, see known_findings.json)"""
    return None


def check_case(site, s, part, benign_cache):
    kind_expected = None
    try:
        ops, data, expect, kind_expected = build_site(site, s)
    except Exception as e:
        if site == "concat_label":
            # labels are user text too; a builder that cannot take the label is judged below as 'not carried'
            ops = None
            build_err = type(e).__name__ + ": " + str(e)[:100]
        else:
            part.violation({"site": site, "probe": s, "error": repr(e)[:200]}, f"site {site}: the builder rejects the string {s!r}: {type(e).__name__}")
            return
    for dialect in DIALECTS:
        for annotate in (True, False):
            part.count("cases")
            case = {"site": site, "probe": s, "dialect": dialect, "annotate": annotate}
            iq = IDENT_QUOTE[dialect]
            must_reject = kind_expected == "ident" and iq in s
            if ops is None:
                fid = classify(site, s, dialect, "build")
                if fid and part.is_open(fid):
                    part.known(fid, example=dict(case, error=build_err))
                else:
                    part.violation(dict(case, error=build_err), f"{site}: the label {s!r} cannot be used at all: {build_err}")
                continue
            g = gen(ops, dialect, annotate)
            if must_reject:
                part.count("names_with_identifier_quote")
                if g[0] == "ok":
                    part.violation(dict(case, sql=g[1]), f"{dialect}: a name containing the identifier quote {iq!r} is not rejected when the SQL is generated ({site}, {s!r})")
                continue
            if g[0] != "ok":
                fid = classify(site, s, dialect, "generate")
                if fid and part.is_open(fid):
                    part.known(fid, example=dict(case, error=compare.brief(g)))
                    continue
                part.violation(dict(case, error=compare.brief(g)), f"{dialect}: SQL generation fails for the string {s!r} at site {site}: {g[1]}: {g[2][:100]}")
                continue
            toks = lex(g[1], dialect)
            bk = (site, dialect, annotate)
            if bk not in benign_cache:
                bops = build_site(site, BENIGN)[0]
                bg = gen(bops, dialect, annotate)
                benign_cache[bk] = lex(bg[1], dialect)
            btoks = benign_cache[bk]
            sk, bsk = skeleton(toks), skeleton(btoks)
            lex_ok = True
            why = None
            if sk != bsk:
                lex_ok = False
                why = "the token structure of the query differs from the one generated for a harmless string"
            else:
                t1 = [t for t in toks if t[0] != "comment"]
                t0 = [t for t in btoks if t[0] != "comment"]
                hit = 0
                for a, b in zip(t0, t1):
                    if a[0] in ("string", "ident") and a[1] == BENIGN:
                        hit += 1
                        if b[1] != s:
                            lex_ok = False
                            why = f"the {a[0]} token at the site reads back as {b[1]!r}"
                if hit == 0:
                    lex_ok = False
                    why = "harness: site token not found"
            part.count("tokenised")
            part.outcome((site, dialect, lex_ok))
            # SQLite: execute and read back
            if dialect == "SQLite":
                r = backends.run_sql(g[1], data)
                exec_ok = False
                if r[0] == "ok":
                    if expect[0] == "column_values":
                        exec_ok = expect[1] in r[1] and sorted([row[r[1].index(expect[1])] for row in r[2]], key=repr) == sorted(expect[2], key=repr)
                    else:
                        exec_ok = r[1] == [expect[1]] and [row[0] for row in r[2]] == expect[2]
                part.count("executed_on_sqlite")
                if exec_ok != lex_ok:
                    raise RuntimeError(f"harness error: SQLite lexer model and SQLite engine disagree on {case}: lexer_ok={lex_ok} ({why}) engine={compare.brief(r)}\n{g[1]}")
                if not exec_ok:
                    fid = classify(site, s, dialect, "execute")
                    if fid and part.is_open(fid):
                        part.known(fid, example=dict(case, got=compare.brief(r)))
                        continue
                    part.violation(dict(case, sql=g[1], got=compare.brief(r), expected=list(expect)), f"SQLite: the string {s!r} at site {site} does not read back verbatim: {compare.brief(r)}")
                continue
            if not lex_ok:
                fid = classify(site, s, dialect, "lex")
                if fid and part.is_open(fid):
                    part.known(fid, example=dict(case, why=why))
                    continue
                part.violation(dict(case, sql=g[1], why=why), f"{dialect}: the string {s!r} at site {site} is not carried verbatim: {why}")


def work(items, open_ids):
    part = core.Part(open_ids)
    cache = {}
    for site, s in items:
        check_case(site, s, part, cache)
    part.sample({"site": items[0][0], "probe": items[0][1]}, limit=1)
    return part.dump()


def run(tier):
    run = core.Run(PROP, tier)
    k = 2 if tier == "quick" else 3
    P = probes(k)
    items = [(site, s) for site in SITES for s in P if not (site in ("table_name", "column_name") and s == "")]
    items = core.rotate(items, run.seed)
    for p in core.pmap(work, [(c, list(run.open_findings)) for c in core.chunks(items, 60)]):
        run.merge(p)
    run.set("states", len(items))
    run.set("transitions", run.cov.get("cases", 0))
    run.set("traces_validated_against_impl", run.cov.get("executed_on_sqlite", 0))
    run.set("evaluations", run.cov.get("tokenised", 0))
    run.assumptions += [
        "lexer models (mc/props/c14.py lex): SQLite / PostgreSQL - '...' strings with '' doubling, no backslash escapes, \"...\" identifiers; MySQL - ' and \" strings with doubling and backslash escapes, `...` identifiers, '-- ' and # comments; SparkSQL / BigQuery - ' and \" strings with backslash escapes and no doubling (adjacent literals are separate tokens), `...` identifiers, BigQuery triple-quoted strings and no raw newline inside a quoted literal",
        "the SQLite lexer model is cross-checked against the SQLite engine on every case; the other four dialects are only tokenised (no engine for them exists here)",
        "names containing the dialect's identifier quote are required to be rejected at generation, as the property excludes them",
    ]
    return run.finish(
        exhaustive=True,
        rule=f"all {len(P)} strings of length <= {k} over the 14-symbol alphabet x {len(SITES)} injection sites x 5 dialects x annotate on/off",
    )


def replay(doc):
    c = doc["case"]
    part = core.Part([f["id"] for f in core.load_findings() if f["status"] == "open"])
    check_case(c["site"], c["probe"], part, {})
    bad = [v for v in part.violations if v["case"].get("dialect") == c.get("dialect")]
    for v in bad[:4]:
        print(v["what"])
    return 1 if bad else 0
