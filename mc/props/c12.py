"""
C12 - printed pipelines rebuild to equal pipelines with identical results.

(i)  every pipeline state reachable in the explorer (core menu + printing slice) is printed with
     to_python(pretty=False), repr() (black) and pickled; each rebuilt pipeline must compare == to
     the original, and either have the identical structural dump or give identical results on
     every small input.
(ii) every expression tree up to a depth built *through the Term API* (so shapes the parser
     never produces are included) is placed in an extend and round-tripped the same way, and
     both versions are evaluated on a grid.
"""

import itertools
import pickle

from mc import backends, compare, core, explorer, inputs, menus
from mc import hist as H

PROP = "C12"


def printing_menu(cols, roles, depth, hist):
    items = menus.core_menu(cols, roles, depth, hist)
    if {"g", "k", "v"} <= set(cols):
        # a block-to-block record map (both sides set)
        from mc.props import c11

        items.append({"op": "convert_records", "map": c11.BLOCK_BLOCK_2})
    K, N = menus._pick(cols, roles)
    if K and "g" in cols and depth == 0:
        items.append({"op": "rename_columns", "map": {"g2": "g"}})
    if "g2" in cols:
        for jt in ("LEFT", "FULL"):
            items.append({"op": "natural_join", "b": menus.E_HIST, "on": [["g2", "g"]], "jointype": jt})
    return items


def roundtrips(ops, want_black=True):
    """-> list of (name, rebuilt ops or exception)"""
    from data_algebra.expr_parse_fn import eval_da_ops

    out = []
    try:
        out.append(("to_python", eval_da_ops(ops.to_python(pretty=False), data_model_map=None)))
    except Exception as e:
        out.append(("to_python", e))
    if want_black:
        try:
            out.append(("repr", eval_da_ops(repr(ops), data_model_map=None)))
        except Exception as e:
            out.append(("repr", e))
    try:
        out.append(("pickle", pickle.loads(pickle.dumps(ops))))
    except Exception as e:
        out.append(("pickle", e))
    return out


def check_state(part, hist, ops, datas, want_black):
    c0 = H.canon(ops)
    base = None
    for name, q in roundtrips(ops, want_black):
        part.count("traces_validated_against_impl")
        if isinstance(q, Exception):
            part.violation({"history": hist, "via": name, "error": type(q).__name__ + ": " + str(q)[:200], "printed": _safe_print(ops)}, f"{name}: printed pipeline cannot be re-evaluated ({type(q).__name__}): {H.short(hist)}")
            continue
        try:
            eq1, eq2 = (q == ops), (ops == q)
        except Exception as e:
            eq1 = eq2 = False
        if not (eq1 and eq2):
            part.violation({"history": hist, "via": name, "printed": _safe_print(ops), "reprinted": _safe_print(q)}, f"{name}: rebuilt pipeline does not compare equal to the original: {H.short(hist)}")
            continue
        if H.canon(q) == c0:
            part.count("identical_structure")
            part.outcome((name, "identical"))
            continue
        # equal by ==, but structurally different: results must still be identical on every input
        part.count("structure_differs_results_compared")
        if base is None:
            base = [backends.run_pandas(ops, d) for d in datas]
        for d, r0 in zip(datas, base):
            r1 = backends.run_pandas(q, d)
            if not compare.same_outcome(r0, r1, ordered=True):
                part.violation(
                    {"history": hist, "via": name, "data": d, "original": compare.brief(r0), "rebuilt": compare.brief(r1), "printed": _safe_print(ops), "reprinted": _safe_print(q)},
                    f"{name}: rebuilt pipeline gives a different result: {H.short(hist)}",
                )
                break
        part.outcome((name, "differs"))


def _safe_print(ops):
    try:
        return ops.to_python(pretty=False)
    except Exception as e:
        return "<print failed: %s>" % e


def work_states(hists, kd, want_black, open_ids):
    part = core.Part(open_ids)
    for hist in hists:
        ops = H.build(hist)
        part.count("states_evaluated")
        tabs = H.hist_tables(hist)
        datas = inputs.data_maps(tabs, kd, 1, inputs.D_ROWS_Q, inputs.E_ROWS_Q)
        check_state(part, hist, ops, datas, want_black)
        part.sample({"history": H.short(hist), "printed": ops.to_python(pretty=False)}, limit=1)
    return part.dump()


# ---------------------------------------------------------------------------------------
# expression trees through the Term API

STRINGS = ["a", "it's", 'say "hi"', "back\\slash", "new\nline", "tab\t", "%s", "--", "é", "", "'", '"""', "\\'"]


def num_leaves(er):
    x, y = er.ColumnReference("x"), er.ColumnReference("y")
    return [("x", x), ("y", y), ("2", er.Value(2)), ("-3", er.Value(-3)), ("0.5", er.Value(0.5)), ("-0.5", er.Value(-0.5))]


def grow_num(er, a_items, b_items):
    """all numeric trees op(a, b) / unary(a)"""
    out = []
    for (na, a) in a_items:
        out.append((f"neg({na})", -a))
        out.append((f"abs({na})", a.abs()))
        if isinstance(a, er.Value) and a.value is not None and a.value < 0:
            out.append((f"lit_neg({na})", er.Value(-a.value).__neg__()))
    for (na, a), (nb, b) in itertools.product(a_items, b_items):
        out.append((f"({na}+{nb})", a + b))
        out.append((f"({na}-{nb})", a - b))
        out.append((f"({na}*{nb})", a * b))
        out.append((f"({na}/{nb})", a / b))
        out.append((f"({na}**{nb})", a**b))
        out.append((f"({na}%{nb})", a % b))
        out.append((f"({na}//{nb})", a // b))
        out.append((f"max({na},{nb})", a.maximum(b)))
    return out


def grow_bool(er, num_a, num_b):
    out = []
    for (na, a), (nb, b) in itertools.product(num_a, num_b):
        out.append((f"({na}=={nb})", a == b))
        out.append((f"({na}<{nb})", a < b))
        out.append((f"({na}>={nb})", a >= b))
    return out


def expr_family(er, tier):
    leaves = num_leaves(er)
    d1 = grow_num(er, leaves, leaves)
    b1 = grow_bool(er, leaves, leaves)
    fam = []
    fam += [("num0", n, t) for n, t in leaves]
    fam += [("num1", n, t) for n, t in d1]
    fam += [("bool1", n, t) for n, t in b1]
    # depth 2: one side a depth-1 tree, other side a leaf (both orders) + unary of depth 1
    core_leaves = leaves if tier != "quick" else leaves[:4]
    d2 = grow_num(er, d1, core_leaves) + [t for t in grow_num(er, core_leaves, d1) if not t[0].startswith(("neg(", "abs(", "lit_neg("))]
    fam += [("num2", n, t) for n, t in d2]
    b2 = grow_bool(er, d1, core_leaves[:2]) + grow_bool(er, core_leaves[:2], d1)
    fam += [("bool2", n, t) for n, t in b2]
    # boolean connectives and if_else over depth-1 booleans
    bsmall = b1[:: max(1, len(b1) // 12)]
    for (na, a), (nb, b) in itertools.product(bsmall, bsmall):
        fam.append(("conn", f"({na} and {nb})", er.kop_expr("and", [a, b], inline=True)))
        fam.append(("conn", f"({na} or {nb})", er.kop_expr("or", [a, b], inline=True)))
    for (na, a) in bsmall:
        fam.append(("conn", f"not({na})", a == er.Value(False)))
        for (nb, b), (nc, c) in itertools.product(leaves[:3], d1[:: max(1, len(d1) // 6)]):
            fam.append(("if_else", f"if_else({na},{nb},{nc})", a.if_else(b, c)))
            fam.append(("if_else", f"where({na},{nc},{nb})", a.where(c, b)))
    if tier != "quick":
        # depth 3 one-sided
        d3 = grow_num(er, d2[:: 7], leaves[:3])
        fam += [("num3", n, t) for n, t in d3]
    # strings, lists, dicts
    g = er.ColumnReference("g")
    for s in STRINGS:
        fam.append(("str", f"lit({s!r})", er.Value(s)))
        fam.append(("str", f"g=={s!r}", g == s))
        fam.append(("str", f"g.is_in([{s!r},'zz'])", g.is_in(er.ListTerm([er.Value(s), er.Value("zz")]))))
        fam.append(("str", f"g.mapv({{{s!r}:1}},0)", g.mapv(er.DictTerm({s: 1, "a": 2}), er.Value(0))))
        fam.append(("str", f"g.mapv({{'a':{s!r}}})", g.mapv(er.DictTerm({"a": s, "b": "q"}), er.Value(s))))
        fam.append(("str", f"g.concat({s!r})", g.concat(s)))
        fam.append(("str", f"g.coalesce({s!r})", g.coalesce(s)))
    x = er.ColumnReference("x")
    fam.append(("list", "x.is_in([1,2])", x.is_in(er.ListTerm([er.Value(1), er.Value(2)]))))
    fam.append(("list", "x.is_in([-1])", x.is_in(er.ListTerm([er.Value(-1)]))))
    fam.append(("dict", "x.mapv({1:-1.5},-2)", x.mapv(er.DictTerm({1: -1.5, 2: 0.5}), er.Value(-2.0))))
    fam.append(("shift", "x.shift(-1)", None))
    return [f for f in fam if f[2] is not None]


GRID_ROWS = [("a", x, float(y)) for x in (-2, 1, 3) for y in (-1, 0.5, 2)] + [("it's", 2, 0.0), (None, 0, 1.0)]


def work_exprs(idx_lo, idx_hi, tier, open_ids):
    import data_algebra.expr_rep as er

    part = core.Part(open_ids)
    fam = expr_family(er, tier)
    grid = inputs.mk(["g", "x", "y"], inputs.D_TYPES, GRID_ROWS)
    td = H.table_description("d")
    for kind, name, term in fam[idx_lo:idx_hi]:
        part.count("expression_trees")
        try:
            ops = td.extend({"z": term})
        except Exception as e:
            part.count("builder_rejected_tree")
            continue
        hist = {"expr_tree": name, "kind": kind}
        c0 = H.canon(ops)
        base = None
        for via, q in roundtrips(ops, want_black=(tier != "quick" or kind in ("str", "list", "dict"))):
            part.count("traces_validated_against_impl")
            printed = _safe_print(ops)
            if isinstance(q, Exception):
                part.violation({"tree": name, "via": via, "printed": printed, "error": type(q).__name__ + ": " + str(q)[:200]}, f"{via}: printed expression {name} cannot be re-evaluated: {printed!r}")
                continue
            if not ((q == ops) and (ops == q)):
                part.violation({"tree": name, "via": via, "printed": printed, "reprinted": _safe_print(q)}, f"{via}: expression {name} printed as {printed!r} rebuilds to a pipeline that is not == to the original")
                continue
            if H.canon(q) == c0:
                part.count("identical_structure")
                part.outcome((kind, via, "identical"))
                continue
            part.count("structure_differs_results_compared")
            if base is None:
                base = backends.run_pandas(ops, {"d": grid})
            r1 = backends.run_pandas(q, {"d": grid})
            if not compare.same_outcome(base, r1, ordered=True):
                part.violation({"tree": name, "via": via, "printed": printed, "reprinted": _safe_print(q), "original": compare.brief(base, 11), "rebuilt": compare.brief(r1, 11)}, f"{via}: expression {name} printed as {printed!r} evaluates differently after the round trip")
            part.outcome((kind, via, "differs"))
        part.sample({"tree": name, "printed": str(term.to_python())}, limit=1)
    return part.dump()


def run(tier):
    import data_algebra.expr_rep as er

    run = core.Run(PROP, tier)
    depth = 2
    ex = explorer.Explorer(printing_menu)
    states = ex.run(depth)
    hists = core.rotate([s.hist for s in states], run.seed)
    want_black = True
    for p in core.pmap(work_states, [(c, 1 if tier == "quick" else 2, want_black, list(run.open_findings)) for c in core.chunks(hists, 40)]):
        run.merge(p)
    nfam = len(expr_family(er, tier))
    step = 400
    for p in core.pmap(work_exprs, [(lo, min(nfam, lo + step), tier, list(run.open_findings)) for lo in range(0, nfam, step)]):
        run.merge(p)
    st = ex.stats()
    run.set("states", st["states"] + nfam)
    run.set("transitions", st["transitions"] + nfam)
    run.set("pipeline_states", st["states"])
    run.set("expression_family", nfam)
    run.assumptions += [
        "a rebuilt pipeline whose structural dump (mc/hist.canon) is identical needs no evaluation; otherwise both are evaluated on Pandas and must agree exactly (same rows in the same order, or both raise)",
    ]
    return run.finish(
        exhaustive=True,
        rule=f"(i) all pipelines reachable in <= {depth} builder calls over the core menu plus record maps and tuple-key joins, round-tripped through to_python(pretty=False), repr() (black) and pickle; (ii) all {nfam} expression trees of the Term-API family (numeric depth <= 2 one-sided{' and 3' if tier!='quick' else ''}, comparisons, and/or/not, if_else/where, 13 hostile string constants in literals / == / is_in / mapv keys and values / concat / coalesce, lists, dicts) each placed in an extend and round-tripped",
    )


def replay(doc):
    c = doc["case"]
    if "history" in c and isinstance(c["history"], dict) and "steps" in c["history"]:
        p = work_states([c["history"]], 1, True, [])
    else:
        import data_algebra.expr_rep as er

        fam = expr_family(er, "thorough")
        idx = [i for i, f in enumerate(fam) if f[1] == c["tree"]]
        p = work_exprs(idx[0], idx[0] + 1, "thorough", []) if idx else {"violations": []}
    for v in p["violations"]:
        print(v["what"])
    return 1 if p["violations"] else 0
