"""
C09 - aggregation returns one row per group, and one row without grouping; a windowed
extend keeps every row and computes each row's value over that row's group (null group too).

Enumerated: prefix (every state at depth <= 1 of a prefix menu) x aggregation step (every
project / unordered windowed-extend entry) x suffix (none, overwrite every output, drop every
output, rename, limit-less order) x all small inputs x every backend.
Oracle: the backend's own result for the prefix gives the input of the aggregation node; the
number of result rows must be the number of distinct key combinations in it (null is a key),
exactly 1 without grouping (also on empty input and after the suffix); windowed values are
recomputed per group by the reference aggregate functions.
"""

import itertools

from mc import backends, compare, core, explorer, inputs, menus
from mc import hist as H
from mc.hist import C, V, O, M, F
from mc.refmodel import R, Unspecified, Ambiguous

PROP = "C09"


def domain_rows(tier):
    if tier == "quick":
        return [(g, x, y) for g in ("a", None) for x in (1, 2) for y in (None, 1.0)]
    return [(g, x, y) for g in ("a", "b", None) for x in (1, 2) for y in (None, 1.0)]


def prefix_menu(cols, roles, depth, hist):
    K, N = menus._pick(cols, roles)
    items = []
    items += menus.select_rows_items(cols, roles)[:3]
    ext = menus.extend_items(cols, roles)
    items += [ext[1], ext[-4], ext[-3]] if len(ext) > 5 else ext[:2]
    items += [{"op": "rename_columns", "map": {"x": "y", "y": "x"}}] if {"x", "y"} <= set(cols) else []
    items += menus.join_items(cols, roles, depth, jointypes=("LEFT",), rights=[menus.E_HIST], self_join=False)[:1]
    items += [o for o in menus.order_items(cols, roles) if o["limit"] == 1][:1]
    # a limit-less order_rows: the builder removes it and re-dispatches the aggregation step to its source
    items += [o for o in menus.order_items(cols, roles) if o["limit"] is None][:1]
    return items


def agg_steps(cols, roles):
    pr = menus.project_items(cols, roles)
    win = [w for w in menus.window_items(cols, roles) if not w.get("order_by")]
    return pr, win


def cols_after_hint(agg):
    return set(agg["ops"]) | set(agg.get("group_by") or [])


def suffixes(agg, cols_after, outputs, keys):
    """suffix step lists applicable after the aggregation step"""
    out = [("none", [])]
    out.append(("overwrite_outputs", [{"op": "extend", "ops": {o: V(1) for o in outputs}}]))
    if keys:
        out.append(("drop_outputs", [{"op": "select_columns", "columns": list(keys)}]))
        if agg["op"] == "project":
            # drop each group key in turn (the SQL translation prunes unused terms: the grouping must survive)
            for k in keys:
                rest = [c for c in list(keys) + list(outputs) if c != k]
                if rest:
                    out.append(("drop_key_" + k, [{"op": "select_columns", "columns": rest}]))
                    out.append(("drop_key2_" + k, [{"op": "drop_columns", "columns": [k]}]))
    elif len(outputs) >= 1:
        # no key: overwrite then keep a single constant column
        out.append(("overwrite_then_select", [{"op": "extend", "ops": {"k9": V(1)}}, {"op": "select_columns", "columns": ["k9"]}]))
    if agg["op"] == "project" and "w" not in cols_after_hint(agg):
        # every output (and key) dropped *after a key-less join*: the rows must still be one per group, times the other side
        out.append(("cross_join_keep_right", [{"op": "natural_join", "b": menus.E_HIST, "on": [], "jointype": "CROSS"}, {"op": "select_columns", "columns": ["w"]}]))
    out.append(("rename", [{"op": "rename_columns", "map": {outputs[0] + "_r": outputs[0]}}]))
    out.append(("order", [{"op": "order_rows", "columns": [outputs[0]]}, {"op": "extend", "ops": {"k8": V(2)}}]))
    return out


BACKENDS = ["pandas", "polars_eager", "polars_lazy", "polars_nolazy_model", "sqlite", "pgtext@sqlite"]
CONV = {"pandas": "pandas", "polars_eager": "polars", "polars_lazy": "polars", "polars_nolazy_model": "polars", "sqlite": "sql", "pgtext@sqlite": "sql"}


def run_backend(b, ops, data, sqlcache):
    if b == "pandas":
        return backends.run_pandas(ops, data)
    if b == "polars_eager":
        return backends.run_polars(ops, data, lazy=False)
    if b == "polars_lazy":
        return backends.run_polars(ops, data, lazy=True)
    if b == "polars_nolazy_model":
        return backends.run_polars_eager_model(ops, data)
    key = (id(ops), b)
    g = sqlcache.get(key)
    if g is None:
        g = backends.gen_sql(ops, model=(backends.pg_model() if b.startswith("pg") else None))
        sqlcache[key] = g
    if g[0] != "ok":
        return g
    return backends.run_sql(g[1], data)


def expected_window(prefix_res, step, conv):
    """prefix rows + per-group aggregate, by the reference aggregate functions"""
    r = R(conv)
    cols = prefix_res[1]
    rows = [dict(zip(cols, t)) for t in prefix_res[2]]
    c2, out = r.s_extend(step, cols, rows)
    return ("ok", c2, [tuple(o[c] for c in c2) for o in out])


def work(prefix_hists, tier, open_ids, part_i=0, part_n=1):
    part = core.Part(open_ids)
    fam = [inputs.mk(["g", "x", "y"], inputs.D_TYPES, rws) for rws in inputs.multisets(domain_rows(tier), 2)]
    efam = inputs.family_e(1, inputs.E_ROWS_Q)
    for ph in prefix_hists:
        pops, prefixes = H.build(ph, want_prefixes=True)
        pcols, proles = menus.result_roles(ph)
        tabs = H.hist_tables(ph)
        pr, win = agg_steps(pcols, proles)
        # build all pipelines for this prefix
        pipes = []
        for si, step in enumerate(pr + win):
            if si % part_n != part_i:
                continue
            is_project = step["op"] == "project"
            outputs = list(step["ops"].keys())
            keys = list(step.get("group_by") or []) if is_project else []
            if is_project and not outputs:
                sufs = [("none", [])]
                for k in keys:
                    rest = [c for c in keys if c != k]
                    if rest:
                        sufs.append(("drop_key_" + k, [{"op": "select_columns", "columns": rest}]))
            else:
                cols_after = None
                sufs = suffixes(step, cols_after, outputs, keys if is_project else [c for c in pcols if c not in outputs])
            for sname, ssteps in sufs:
                h = {"table": ph["table"], "steps": ph["steps"] + [step] + ssteps}
                try:
                    ops = H.build(h)
                except Exception as e:
                    part.count("rejected_pipelines")
                    continue
                pipes.append((step, sname, h, ops))
        part.count("pipelines", len(pipes))
        sqlcache = {}
        datas = [{"d": t} for t in fam] if tabs == ["d"] else [{"d": t, "e": e} for t in fam for e in efam]
        if tabs == ["d"] and any(sname == "cross_join_keep_right" for _, sname, _, _ in pipes):
            # the join suffix reads e: give every input a fixed two-row e
            e2 = inputs.mk(["g", "w", "y"], inputs.E_TYPES, inputs.E_ROWS_Q[:2])
            datas = [{"d": t, "e": e2} for t in fam]
        for data in datas:
            pres = {b: run_backend(b, pops, data, sqlcache) for b in BACKENDS}
            for step, sname, h, ops in pipes:
                is_project = step["op"] == "project"
                gb = list(step.get("group_by") or []) if is_project else []
                for b in BACKENDS:
                    p = pres[b]
                    if p[0] != "ok":
                        part.count("prefix_raised:" + b)
                        continue
                    res = run_backend(b, ops, data, sqlcache)
                    part.count("traces_validated_against_impl")
                    if res[0] != "ok":
                        # polars may not support a step; a raise is not a wrong row count
                        part.count("raised:" + b)
                        continue
                    n = len(res[2])
                    if is_project:
                        if gb:
                            kp = compare.project_cols(p, gb)
                            want = len({tuple(compare._key(v) for v in r) for r in kp[2]})
                        else:
                            want = 1
                        if sname == "cross_join_keep_right":
                            want = want * len(data["e"]["rows"])
                        part.outcome(("project", bool(gb), sname, want, n == want))
                        if n != want:
                            part.violation(
                                {"history": h, "data": data, "backend": b, "rows_returned": n, "rows_expected": want, "prefix_result": compare.brief(p), "result": compare.brief(res)},
                                f"{b}: project returned {n} rows, expected {want} ({'one per distinct key incl. null' if gb else 'exactly one'}): {H.short(h)}",
                            )
                            continue
                        if gb and sname == "none" and not set(gb) <= set(res[1]):
                            part.violation(
                                {"history": h, "data": data, "backend": b, "prefix_result": compare.brief(p), "result": compare.brief(res)},
                                f"{b}: the result of a grouped project lacks its group key column(s) {gb}: {H.short(h)}",
                            )
                            continue
                        if gb and sname == "none":
                            kr = compare.project_cols(res, gb)
                            kd = ("ok", gb, sorted(set(kp[2]), key=repr))
                            if not compare.EQ(kr, ("ok", gb, list({tuple(compare._key(v) for v in r): r for r in kp[2]}.values()))):
                                part.violation(
                                    {"history": h, "data": data, "backend": b, "prefix_result": compare.brief(p), "result": compare.brief(res)},
                                    f"{b}: project keys are not the distinct keys of its input: {H.short(h)}",
                                )
                    else:
                        want = len(p[2])
                        part.outcome(("window", sname, want, n == want))
                        if n != want:
                            part.violation(
                                {"history": h, "data": data, "backend": b, "rows_returned": n, "rows_expected": want, "prefix_result": compare.brief(p), "result": compare.brief(res)},
                                f"{b}: windowed extend returned {n} rows for {want} input rows: {H.short(h)}",
                            )
                            continue
                        if sname == "none":
                            try:
                                exp = expected_window(p, step, CONV[b])
                            except (Unspecified, Ambiguous):
                                part.count("window_value_unspecified")
                                continue
                            if not compare.EQ(res, exp):
                                part.violation(
                                    {"history": h, "data": data, "backend": b, "prefix_result": compare.brief(p), "result": compare.brief(res), "expected": compare.brief(exp)},
                                    f"{b}: windowed extend values differ from the per-group reference (null group included): {H.short(h)}",
                                )
                            else:
                                part.count("window_values_checked")
            part.sample({"prefix": H.short(ph), "input": data["d"]["rows"], "pipelines": len(pipes)}, limit=1)
    return part.dump()


def run(tier):
    run = core.Run(PROP, tier)
    ex = explorer.Explorer(prefix_menu)
    states = ex.run(1)
    hists = core.rotate([s.hist for s in states], run.seed)
    PARTS = 8
    for p in core.pmap(work, [([h], tier, list(run.open_findings), i, PARTS) for h in hists for i in range(PARTS)]):
        run.merge(p)
    run.set("states", len(states) + run.cov.get("pipelines", 0))
    run.set("transitions", ex.stats()["transitions"] + run.cov.get("pipelines", 0))
    run.assumptions += [
        "the input of the aggregation node is taken from the same backend's own evaluation of the prefix, so prefix-level findings of other properties cannot leak in",
        "a backend that raises (Polars on unsupported steps) returns no table and is not judged",
        "pgtext@sqlite = PostgreSQL dialect text on the SQLite engine; only row counts and group keys are read from it",
    ]
    nrows = len(domain_rows(tier))
    return run.finish(
        exhaustive=True,
        rule=f"prefix states at depth <= 1 of the prefix menu x every project/unordered-window menu entry x 5 suffixes x all multisets of <= 2 rows over the full {nrows}-row product domain of d x 6 executors (Pandas, Polars eager / lazy frames, PolarsModel(use_lazy_eval=False), SQLite, PostgreSQL text on SQLite)",
    )


def replay(doc):
    c = doc["case"]
    h, data, b = c["history"], c["data"], c["backend"]
    ops = H.build(h)
    print(H.short(h))
    res = run_backend(b, ops, data, {})
    print(b, compare.brief(res))
    print("expected rows", c.get("rows_expected"))
    if "rows_expected" in c and res[0] == "ok":
        return 1 if len(res[2]) != c["rows_expected"] else 0
    return 1
