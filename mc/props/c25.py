"""
C25 - the evaluation result cache is transparent.

(i)  all pairs of a complete frame family: frames that differ in a value, a column name,
     the shape or the row order never share a key; rebuilding the same frame gives the same key.
(ii) explicit-state BFS over store/get/mutate histories of the real ResultCache with a dict
     reference model in lock-step (state merging on the model state).
"""

import itertools

from mc import core

PROP = "C25"

COLTYPES = {
    "int": ("int64", [1, 2]),
    "float": ("float64", [1.0, 2.0, None]),
    "str": ("object", ["1", "2", None]),
    "bool": ("bool", [True, False]),
}


def frame_family(max_rows):
    """[(descr, content)] ; content = (names tuple, ((type, values tuple), ...))"""
    fam = []
    for n in range(max_rows + 1):
        cols_n = []
        for tname, (dt, vals) in COLTYPES.items():
            for tup in itertools.product(vals, repeat=n):
                cols_n.append((tname, tup))
        for names in (("x",), ("y",), ("x", "y"), ("y", "x")):
            for combo in itertools.product(cols_n, repeat=len(names)):
                fam.append((names, combo))
    return fam


def build_frame(content):
    import pandas

    names, combo = content
    return pandas.DataFrame({nm: pandas.Series(list(vals), dtype=COLTYPES[t][0]) for nm, (t, vals) in zip(names, combo)}, columns=list(names))


def _veq(a, b):
    if a is None or b is None:
        return a is None and b is None
    return a == b


def differ(c1, c2):
    """differ in a value, a column name, the shape or the row order (Python value equality: 1 == 1.0 == True)"""
    n1, k1 = c1
    n2, k2 = c2
    if n1 != n2:
        return True
    for (t1, v1), (t2, v2) in zip(k1, k2):
        if len(v1) != len(v2):
            return True
        if any(not _veq(a, b) for a, b in zip(v1, v2)):
            return True
    return False


def pair_work(lo, hi, max_rows):
    from data_algebra.eval_cache import hash_data_frame

    part = core.Part([])
    fam = frame_family(max_rows)
    keys = [hash_data_frame(build_frame(c)) for c in fam]
    n = 0
    for i in range(lo, hi):
        ci = fam[i]
        if hash_data_frame(build_frame(ci)) != keys[i]:
            part.violation({"frame": ci}, "the same frame built twice gives two keys")
        for j in range(i + 1, len(fam)):
            n += 1
            if keys[i] == keys[j] and differ(ci, fam[j]):
                part.violation({"a": ci, "b": fam[j], "key": keys[i]}, f"frames that differ share a cache key: {ci} vs {fam[j]}")
    part.count("pairs", n)
    part.outcome(("pairs", lo // 50))
    return part.dump()


# ------------------------------------------------------------------------------ data-map keys


def map_pairs_work():
    """all pairs of (dialect, sql, data map) over 1-2 table names x 3 frames x both dict insertion orders"""
    import pandas
    from data_algebra.eval_cache import make_cache_key

    part = core.Part([])
    F = {
        "A": pandas.DataFrame({"x": [1, 2], "g": ["a", "b"]}),
        "Acell": pandas.DataFrame({"x": [1, 3], "g": ["a", "b"]}),
        "B": pandas.DataFrame({"w": [1.5]}),
    }
    maps = []  # (canonical content, dict in a particular insertion order)
    for n in ("d", "e"):
        for f in F:
            maps.append((((n, f),), {n: F[f]}))
    for fd in F:
        for fe in F:
            maps.append(((("d", fd), ("e", fe)), {"d": F[fd], "e": F[fe]}))
            maps.append(((("d", fd), ("e", fe)), {"e": F[fe], "d": F[fd]}))
    MODELS = models()
    items = []
    for m in MODELS:
        for sname, sql in SQLS.items():
            for canon, dm in maps:
                key = make_cache_key(db_model=MODELS[m], sql=sql, data_map=dm)
                items.append(((m, sname, canon), list(dm.keys()), key))
    for i in range(len(items)):
        for j in range(i + 1, len(items)):
            (ci, oi, ki), (cj, oj, kj) = items[i], items[j]
            part.count("map_pairs")
            if ci != cj and ki == kj:
                part.violation({"a": ci, "a_insertion_order": oi, "b": cj, "b_insertion_order": oj}, f"different (dialect, sql, data map) triples share a cache key: {ci} (inserted {oi}) vs {cj} (inserted {oj})")
            if ci == cj and ki != kj:
                part.count("equal_maps_in_other_insertion_order_get_other_key")
    return part.dump()


# ------------------------------------------------------------------------------ histories


def data_maps():
    import pandas

    A = pandas.DataFrame({"x": [1, 2], "g": ["a", "b"]})
    A_perm = pandas.DataFrame({"x": [2, 1], "g": ["b", "a"]})
    A_cell = pandas.DataFrame({"x": [1, 3], "g": ["a", "b"]})
    B = pandas.DataFrame({"w": [1.5]})
    return {
        "A": {"d": A},
        "Aperm": {"d": A_perm},
        "Acell": {"d": A_cell},
        "A+B": {"d": A, "e": B},
        # two tables bound the other way round, built in the other insertion order
        "AC": {"d": A, "e": A_cell},
        "CA": {"e": A, "d": A_cell},
        # one caller-owned frame object edited in place between the contents of A and Acell
        "M": {"d": A.copy()},
    }


def results():
    import pandas

    return {"R1": pandas.DataFrame({"r": [1, 2]}), "R2": pandas.DataFrame({"r": [1, 3]})}


def models():
    import data_algebra.SQLite
    import data_algebra.PostgreSQL

    return {"sqlite": data_algebra.SQLite.SQLiteModel(), "pg": data_algebra.PostgreSQL.PostgreSQLModel()}


SQLS = {"s1": "SELECT * FROM d", "s2": "SELECT * FROM d "}


def events(dm_names, model_names=("sqlite", "pg"), sql_names=None):
    ev = []
    for m in model_names:
        for s in (sql_names or SQLS):
            for d in dm_names:
                ev.append(("get", m, s, d))
                for r in ("R1", "R2"):
                    ev.append(("store", m, s, d, r))
    ev.append(("mutate",))
    return ev


def replay_history(hist, MODELS, DMS, RES):
    """Run the history on a fresh real cache with the dict model in lock-step.
    Returns (violation or None, model_state)."""
    from data_algebra.eval_cache import ResultCache

    cache = ResultCache()
    model = {}
    last = None  # (frame returned by the last successful get)
    # "M" is one caller-owned frame object that the history edits in place between the contents of
    # A and Acell (C25-r4m1): keys are a function of table *contents*, so the model files it under the
    # name of the equal fresh frame
    mcontent = "A"
    if "M" in DMS:
        DMS["M"]["d"].loc[1, "x"] = 2
    for i, ev in enumerate(hist):
        if ev[0] == "edit":
            mcontent = "Acell" if mcontent == "A" else "A"
            DMS["M"]["d"].loc[1, "x"] = 3 if mcontent == "Acell" else 2
            continue
        if ev[0] in ("store", "get") and ev[3] == "M":
            ev = ev[:3] + (mcontent,) + ev[4:]
            dm_use = DMS["M"]
        elif ev[0] in ("store", "get"):
            dm_use = DMS[ev[3]]
        if ev[0] == "store":
            _, m, s, d, r = ev
            cache.store(db_model=MODELS[m], sql=SQLS[s], data_map=dm_use, res=RES[r])
            model[(m, s, d)] = r
        elif ev[0] == "get":
            _, m, s, d = ev
            want = model.get((m, s, d))
            try:
                got = cache.get(db_model=MODELS[m], sql=SQLS[s], data_map=dm_use)
            except KeyError:
                got = None
            if want is None:
                if got is not None:
                    return (f"step {i}: lookup {ev} succeeded although nothing was stored under that dialect/sql/data", model)
            else:
                if got is None:
                    return (f"step {i}: lookup {ev} missed although {want} was stored under exactly that key", model)
                if not got.equals(RES[want]):
                    return (f"step {i}: lookup {ev} returned a frame different from the stored {want}", model)
                if got is RES[want]:
                    return (f"step {i}: lookup returned the caller's own object, not a copy", model)
                last = got
        elif ev[0] == "mutate":
            if last is not None and last.shape[0] > 0:
                last.iloc[0, 0] = 99
                last["extra"] = 1
    # final sweep: every key observed against the model
    for m in MODELS:
        for s in SQLS:
            for d in DMS:
                if d == "M":
                    continue
                want = model.get((m, s, d))
                try:
                    got = cache.get(db_model=MODELS[m], sql=SQLS[s], data_map=DMS[d])
                except KeyError:
                    got = None
                if (want is None) != (got is None):
                    return (f"final sweep: key {(m, s, d)} present={got is not None}, model says {want}", model)
                if want is not None and not got.equals(RES[want]):
                    return (f"final sweep: key {(m, s, d)} holds a frame different from the stored {want} (was a returned copy mutated?)", model)
    return (None, model)


def hist_work(hists, dm_names):
    part = core.Part([])
    MODELS, DMS_all, RES = models(), data_maps(), results()
    DMS = {k: DMS_all[k] for k in dm_names}
    out = []
    for h in hists:
        v, model = replay_history(h, MODELS, DMS, RES)
        part.count("histories")
        if v:
            part.violation({"history": h}, v)
        out.append((tuple(sorted(model.items())), any(e[0] == "get" for e in h)))
    d = part.dump()
    d["models"] = out
    return d


def run(tier):
    run = core.Run(PROP, tier)
    max_rows = 1 if tier == "quick" else 2
    fam = frame_family(max_rows)
    nf = len(fam)
    step = 50
    for p in core.pmap(pair_work, [(lo, min(nf, lo + step), max_rows) for lo in range(0, nf, step)]):
        run.merge(p)
    # ---- histories with state merging on the model state
    run.merge(map_pairs_work())
    depth = 3 if tier == "quick" else 4
    # two explorations: one-table maps under both dialects / SQL texts, and two-table maps bound
    # both ways round (built in both insertion orders) under one dialect, one level deeper
    plans = [
        (["A", "Aperm", "Acell"], events(["A", "Aperm", "Acell"]), depth),
        (["AC", "CA", "A+B"], events(["AC", "CA", "A+B"], model_names=("sqlite",), sql_names=("s1",)), depth + 1),
        # a caller-owned frame edited in place between two contents, next to fresh frames with those contents
        (["A", "Acell", "M"], events(["A", "Acell", "M"], model_names=("sqlite",), sql_names=("s1",)) + [("edit",)], depth + 1),
    ]
    seen_total = 0
    transitions = 0
    n_events = 0
    for dm_names, evs, dep in plans:
        n_events += len(evs)
        seen = {((), False)}
        frontier = [[]]
        for d in range(dep):
            cand = [h + [e] for h in frontier for e in evs]
            transitions += len(cand)
            nxt = []
            res_models = []
            for p in core.pmap(hist_work, [(c, dm_names) for c in core.chunks(cand, 400)]):
                res_models.extend(p.pop("models"))
                run.merge(p)
            for h, (mstate, hasget) in zip(cand, res_models):
                # a mutate/get changes nothing in the model; merge on the model state plus
                # whether a returned frame is outstanding (a later mutate acts on it)
                last_get = None
                for e in reversed(h):
                    if e[0] == "get":
                        last_get = e
                        break
                k = (mstate, last_get, h[-1][0] == "mutate", sum(1 for e in h if e[0] == "edit") % 2)
                if k not in seen:
                    seen.add(k)
                    nxt.append(h)
            frontier = nxt
        seen_total += len(seen)
    run.set("frame_family", nf)
    run.set("states", seen_total)
    run.set("transitions", transitions)
    run.set("traces_validated_against_impl", run.cov.get("histories", 0))
    run.set("evaluations", run.cov.get("histories", 0) + run.cov.get("pairs", 0))
    run.sample({"history": [["store", "sqlite", "s1", "A", "R1"], ["get", "sqlite", "s1", "Aperm"], ["mutate"]], "expected": "the get misses (row order differs)"})
    run.sample({"pair": [fam[5], fam[-1]]})
    run.assumptions += [
        "value difference is Python inequality, so an int 1, a float 1.0 and True are the same value (a key shared by such frames is not counted)",
    ]
    return run.finish(
        exhaustive=True,
        rule=f"(iii) all pairs of (dialect, sql, data map) keys over 24 one- and two-table data maps in both dict insertion orders; (i) all {nf*(nf-1)//2} pairs of the complete family of frames with <= {max_rows} rows, 1-2 columns named x/y in either order, column types int/float/str/bool over 2-3 values each; (ii) all histories of length <= {depth} over 37 events (store/get x 2 dialects x 2 SQL texts x 3 one-table data maps incl. a row permutation and a one-cell change x 2 results; mutate last returned frame) and all histories of length <= {depth + 1} over 10 events on three two-table data maps (the same two frames bound both ways round, built in both insertion orders), and all histories of length <= {depth + 1} over 11 events on two fresh frames and one caller-owned frame object that an 'edit' event changes in place between their two contents (keys follow contents, not object identity), merged on the model state",
    )


def replay(doc):
    c = doc["case"]
    if "history" in c:
        h = [tuple(e) for e in c["history"]]
        v, _ = replay_history(h, models(), data_maps(), results())
        print(h, "->", v)
        return 1 if v else 0
    print(c)
    return 1
