"""
C05 - every catalogued method behaves as documented on every backend that claims it.

Exhaustive input enumeration.  For every row of op_catalog.methods_table a single-method
pipeline is built in the context the row declares (e: plain extend, g: partitioned extend,
w: partitioned + ordered extend, p/up: grouped project) and evaluated on ONE table whose rows
are the complete product of the argument domains (unary: 10-12 values, binary: the full 10 x 10
grid, ternary: 3 x 10 x 10; aggregates: every value sequence of length <= 3 (thorough 4) over
{NULL, 1, 2, 3}, each as a group of its own), on Pandas where the catalog says 'y', SQLite where
it says 'y', and Polars always (a Polars exception is accepted).

Oracle: a table of reference functions transcribed from the expr_rep.Term docstrings, three-
valued: a value, NULL, or UNSPECIFIED (domain errors, overflow, round-half cases, null operands
of operators whose null behaviour the documentation does not settle, integer / and % which
follow the destination).  Unspecified cells are not compared and are counted.
"""

import datetime
import itertools
import math

from mc import backends, compare, core, inputs
from mc import hist as H
from mc.hist import C, V, O, U, M, F
from mc.refmodel import R, Unspecified, Ambiguous

PROP = "C05"

UNSPEC = "<<unspecified>>"
INF = float("inf")

NUM = [None, -2.0, -1.0, -0.5, 0.0, 0.5, 1.0, 2.0, 3.0, 1e6]
NUM_INF = NUM + [INF, -INF]
BOOL = [None, True, False]
STR = [None, "", "a", "b", "ab", "abc"]


def strict(f):
    def g(*a):
        if any(x is None for x in a):
            return None
        return f(*a)

    return g


def dom(pred, f):
    def g(*a):
        if any(x is None for x in a):
            return None
        if not pred(*a):
            return UNSPEC
        try:
            return f(*a)
        except (OverflowError, ValueError, ZeroDivisionError):
            return UNSPEC

    return g


def nospec_null(f):
    """null operand: not settled by the documentation"""

    def g(*a):
        if any(x is None for x in a):
            return UNSPEC
        return f(*a)

    return g


def _round(x):
    if abs(x - math.floor(x) - 0.5) < 1e-12:
        return UNSPEC
    return float(round(x))


def _intlike(*a):
    return all(float(x).is_integer() and abs(x) < 1e15 for x in a)


def _pow(a, b):
    if a == 0 and b < 0:
        return UNSPEC
    if a < 0 and not float(b).is_integer():
        return UNSPEC
    try:
        r = a**b
    except OverflowError:
        return UNSPEC
    if isinstance(r, complex) or abs(r) > 1e300:
        return UNSPEC
    return r


def _sign(x):
    return 0 if x == 0 else (1 if x > 0 else -1)


BIG = 700

UNARY = {
    "abs": strict(abs),
    "arccos": dom(lambda x: abs(x) <= 1, math.acos),
    "arccosh": dom(lambda x: x >= 1, math.acosh),
    "arcsin": dom(lambda x: abs(x) <= 1, math.asin),
    "arcsinh": strict(math.asinh),
    "arctan": strict(math.atan),
    "arctanh": dom(lambda x: abs(x) < 1, math.atanh),
    "ceil": strict(lambda x: float(math.ceil(x))),
    "floor": strict(lambda x: float(math.floor(x))),
    "cos": strict(math.cos),
    "cosh": dom(lambda x: abs(x) < BIG, math.cosh),
    "exp": dom(lambda x: x < BIG, math.exp),
    "expm1": dom(lambda x: x < BIG, math.expm1),
    "log": dom(lambda x: x > 0, math.log),
    "log10": dom(lambda x: x > 0, math.log10),
    "log1p": dom(lambda x: x > -1, math.log1p),
    "round": strict(_round),
    "sign": strict(_sign),
    "sin": strict(math.sin),
    "sinh": dom(lambda x: abs(x) < BIG, math.sinh),
    "sqrt": dom(lambda x: x >= 0, math.sqrt),
    "tanh": strict(math.tanh),
    "as_int64": lambda x: UNSPEC if (x is None or not _intlike(x)) else int(x),
    "coalesce_0": lambda x: 0 if x is None else x,
    "is_null": lambda x: x is None,
    "is_bad": lambda x: x is None or math.isinf(x) or math.isnan(x),
    "is_inf": lambda x: UNSPEC if x is None else math.isinf(x),
    "is_nan": lambda x: UNSPEC if x is None else math.isnan(x),
}
UNARY_WITH_INF = {"is_null", "is_bad", "is_inf", "is_nan", "coalesce_0"}  # an infinity is a value, not a missing value

BINARY_OPS = {
    "+": strict(lambda a, b: a + b),
    "-": strict(lambda a, b: a - b),
    "*": strict(lambda a, b: a * b),
    "/": dom(lambda a, b: b != 0, lambda a, b: a / b),
    "%/%": dom(lambda a, b: b != 0, lambda a, b: a / b),
    "//": dom(lambda a, b: b > 0 and a >= 0 and _intlike(a, b), lambda a, b: float(a // b)),
    "%": dom(lambda a, b: b > 0 and a >= 0 and _intlike(a, b), lambda a, b: float(a % b)),
    # IEEE pow(x, 0) = pow(1, y) = 1 even for NaN, SQL gives NULL: a null operand there is not settled
    "**": lambda a, b: (UNSPEC if ((a is None and b == 0) or (b is None and a == 1)) else (None if (a is None or b is None) else _pow(a, b))),
    "==": nospec_null(lambda a, b: a == b),
    "!=": nospec_null(lambda a, b: a != b),
    "<": nospec_null(lambda a, b: a < b),
    "<=": nospec_null(lambda a, b: a <= b),
    ">": nospec_null(lambda a, b: a > b),
    ">=": nospec_null(lambda a, b: a >= b),
}


def _fmax(a, b):
    if a is None:
        return b
    if b is None:
        return a
    return max(a, b)


def _fmin(a, b):
    if a is None:
        return b
    if b is None:
        return a
    return min(a, b)


BINARY_METHODS = {
    "maximum": strict(max),
    "minimum": strict(min),
    "fmax": _fmax,
    "fmin": _fmin,
    "arctan2": strict(math.atan2),
    "mod": dom(lambda a, b: b > 0 and a >= 0 and _intlike(a, b), lambda a, b: float(a % b)),
    "remainder": dom(lambda a, b: b > 0 and a >= 0 and _intlike(a, b), lambda a, b: float(a % b)),
    "coalesce": lambda a, b: a if a is not None else b,
    "%?%": lambda a, b: a if a is not None else b,
}

LOGIC = {
    "and": nospec_null(lambda a, b: bool(a and b)),
    "or": nospec_null(lambda a, b: bool(a or b)),
}


CROSS_ONLY = {"dayofweek", "weekofyear"}


def table(cols, types, rows):
    rows = [tuple(r) + (i,) for i, r in enumerate(rows)]
    return inputs.mk(cols + ["i"], dict(types, i="int"), rows)


def scalar_cases():
    """[(name, op_class, catalog op, expression AST, table, ref over the row tuple)]"""
    cases = []
    tu = table(["a"], {"a": "float"}, [(v,) for v in NUM])
    tu_inf = table(["a"], {"a": "float"}, [(v,) for v in NUM_INF])
    for name, ref in UNARY.items():
        t = tu_inf if name in UNARY_WITH_INF else tu
        cases.append((name, ("coalesce" if name == "coalesce_0" else name), M(name, C("a")), t, lambda r, ref=ref: ref(r[0])))
    cases.append(("neg", "-", U("-", C("a")), tu, lambda r: None if r[0] is None else -r[0]))
    cases.append(("around2", "around", M("around", C("a"), V(2)), tu, strict_row(lambda a: round(a, 2))))
    cases.append(("coalesce_lit", "coalesce", M("coalesce", C("a"), V(2)), tu_inf, lambda r: 2 if r[0] is None else r[0]))
    cases.append(("coalesce_op_lit", "coalesce", ["raw", "a %?% 2"], tu_inf, lambda r: 2 if r[0] is None else r[0]))
    tb_inf = table(["a", "b"], {"a": "float", "b": "float"}, [(a, b) for a in (None, 1.0, INF, -INF) for b in (None, 7.0, INF)])
    cases.append(("coalesce_inf", "coalesce", M("coalesce", C("a"), C("b")), tb_inf, lambda r: r[0] if r[0] is not None else r[1]))
    tb = table(["a", "b"], {"a": "float", "b": "float"}, list(itertools.product(NUM, NUM)))
    for op, ref in BINARY_OPS.items():
        cases.append(("op" + op, op, ["raw", f"a {op} b"], tb, lambda r, ref=ref: ref(r[0], r[1])))
    for name, ref in BINARY_METHODS.items():
        if name == "%?%":
            cases.append(("coalesce_op", "coalesce", ["raw", "a %?% b"], tb, lambda r, ref=ref: ref(r[0], r[1])))
        else:
            cases.append((name, name, M(name, C("a"), C("b")), tb, lambda r, ref=ref: ref(r[0], r[1])))
    tl = table(["p", "q"], {"p": "bool", "q": "bool"}, list(itertools.product(BOOL, BOOL)))
    for op, ref in LOGIC.items():
        cases.append((op, op, O(op, C("p"), C("q")), tl, lambda r, ref=ref: ref(r[0], r[1])))
    cases.append(("not", "==", U("not", C("p")), tl, lambda r: UNSPEC if r[0] is None else (not r[0])))
    tt = table(["c", "a", "b"], {"c": "bool", "a": "float", "b": "float"}, list(itertools.product(BOOL, NUM, NUM)))
    cases.append(("if_else", "if_else", M("if_else", C("c"), C("a"), C("b")), tt, lambda r: None if r[0] is None else (r[1] if r[0] else r[2])))
    cases.append(("where", "where", M("where", C("c"), C("a"), C("b")), tt, lambda r: r[1] if r[0] is True else r[2]))
    # integer / string methods
    ti = table(["n"], {"n": "int"}, [(v,) for v in [None, -2, -1, 0, 1, 2, 3, 7]])
    cases.append(("is_in", "is_in", M("is_in", C("n"), ["rawarg", "{1, 3}"]), ti, lambda r: UNSPEC if r[0] is None else (r[0] in (1, 3))))
    ti_nn = table(["n"], {"n": "int"}, [(v,) for v in [-2, -1, 0, 1, 2, 3, 7, 1000000]])
    cases.append(("as_str_int", "as_str", M("as_str", C("n")), ti_nn, lambda r: str(r[0])))
    ts = table(["s", "t"], {"s": "str", "t": "str"}, list(itertools.product(STR, STR)))
    cases.append(("concat", "concat", M("concat", C("s"), C("t")), ts, lambda r: UNSPEC if (r[0] is None or r[1] is None) else r[0] + r[1]))
    cases.append(("concat_op", "concat", ["raw", 's %+% "_" %+% t'], ts, lambda r: UNSPEC if (r[0] is None or r[1] is None) else r[0] + "_" + r[1]))
    for (a, b) in ((0, 2), (0, 1), (1, 3), (0, 5)):
        cases.append((f"trimstr_{a}_{b}", "trimstr", M("trimstr", C("s"), V(a), V(b)), ts, lambda r, a=a, b=b: UNSPEC if r[0] is None else r[0][a:b]))
    cases.append(("as_str_str", "as_str", M("as_str", C("s")), ts, lambda r: UNSPEC if r[0] is None else r[0]))
    cases.append(("mapv", "mapv", M("mapv", C("s"), ["rawarg", '{"a": 1, "b": 2, "z": 26}'], V(0)), ts, lambda r: UNSPEC if r[0] is None else {"a": 1, "b": 2}.get(r[0], 0)))
    cases += date_cases()
    return cases


def days():
    d0 = datetime.date(2019, 12, 25)
    return [d0 + datetime.timedelta(days=k) for k in range(380)]


def iso(v):
    """dates and datetimes as ISO text; a datetime at midnight reads like its date (Pandas has no date dtype)"""
    if v is None:
        return None
    if isinstance(v, datetime.datetime):
        if v.hour == 0 and v.minute == 0 and v.second == 0 and v.microsecond == 0:
            return v.date().isoformat()
        return v.isoformat(sep=" ")
    if isinstance(v, datetime.date):
        return v.isoformat()
    return v


def norm_any(v):
    v = backends.norm_value(v)
    if v is None:
        return None
    try:
        import pandas

        if isinstance(v, pandas.Timestamp):
            v = v.to_pydatetime()
    except Exception:
        pass
    try:
        import numpy

        if isinstance(v, numpy.datetime64):
            import pandas

            v = pandas.Timestamp(v).to_pydatetime()
    except Exception:
        pass
    return iso(v)


def date_cases():
    """date / time methods (the catalogue marks them Pandas only; Polars is tried too)"""
    cases = []
    D = days()
    td = table(["d0"], {"d0": "date"}, [(d,) for d in D] + [(None,)])
    nn = lambda f: (lambda r: UNSPEC if r[0] is None else f(r[0]))
    cases.append(("year", "year", M("year", C("d0")), td, nn(lambda d: d.year)))
    cases.append(("month", "month", M("month", C("d0")), td, nn(lambda d: d.month)))
    cases.append(("dayofmonth", "dayofmonth", M("dayofmonth", C("d0")), td, nn(lambda d: d.day)))
    cases.append(("dayofyear", "dayofyear", M("dayofyear", C("d0")), td, nn(lambda d: d.timetuple().tm_yday)))
    cases.append(("quarter", "quarter", M("quarter", C("d0")), td, nn(lambda d: (d.month - 1) // 3 + 1)))
    cases.append(("base_Sunday", "base_Sunday", M("base_Sunday", C("d0")), td, nn(lambda d: iso(d - datetime.timedelta(days=(d.weekday() + 1) % 7)))))
    cases.append(("format_date", "format_date", M("format_date", C("d0")), td, nn(lambda d: d.strftime("%Y-%m-%d"))))
    cases.append(("format_date_fmt", "format_date", M("format_date", C("d0"), V("%d/%m/%Y")), td, nn(lambda d: d.strftime("%d/%m/%Y"))))
    # numbering conventions the documentation does not give: only compared between backends
    cases.append(("dayofweek", "dayofweek", M("dayofweek", C("d0")), td, lambda r: UNSPEC))
    cases.append(("weekofyear", "weekofyear", M("weekofyear", C("d0")), td, lambda r: UNSPEC))
    pairs = [(d, d + datetime.timedelta(days=k)) for d in D for k in (-400, -31, -1, 0, 1, 366)]
    t2 = table(["d0", "d1"], {"d0": "date", "d1": "date"}, pairs)
    cases.append(("date_diff", "date_diff", M("date_diff", C("d0"), C("d1")), t2, lambda r: (r[0] - r[1]).days))
    ts = table(["s"], {"s": "str"}, [(d.isoformat(),) for d in D])
    cases.append(("parse_date", "parse_date", M("parse_date", C("s")), ts, lambda r: r[0]))
    # explicit, non-ISO formats (day first: ambiguous for days <= 12 unless the format is honoured)
    # (the first rows are ambiguous dates, so that a parser that guesses the format from the data guesses wrong)
    Dr = D[8:] + D[:8]
    ts2 = table(["s"], {"s": "str"}, [(d.strftime("%d/%m/%Y"),) for d in Dr])
    cases.append(("parse_date_fmt", "parse_date", M("parse_date", C("s"), V("%d/%m/%Y")), ts2, lambda r: iso(datetime.datetime.strptime(r[0], "%d/%m/%Y").date())))
    DT = [datetime.datetime(d.year, d.month, d.day, h, m, sec) for d in D[::7] for (h, m, sec) in ((0, 0, 0), (12, 34, 56), (23, 59, 59))]
    tdt = table(["t0"], {"t0": "datetime"}, [(x,) for x in DT])
    cases.append(("datetime_to_date", "datetime_to_date", M("datetime_to_date", C("t0")), tdt, lambda r: r[0].date().isoformat()))
    cases.append(("format_datetime", "format_datetime", M("format_datetime", C("t0")), tdt, lambda r: r[0].strftime("%Y-%m-%d %H:%M:%S")))
    tpd = table(["s"], {"s": "str"}, [(x.strftime("%Y-%m-%d %H:%M:%S"),) for x in DT])
    cases.append(("parse_datetime", "parse_datetime", M("parse_datetime", C("s")), tpd, lambda r: iso(datetime.datetime.strptime(r[0], "%Y-%m-%d %H:%M:%S"))))
    DTr = [x for x in DT if x.day <= 12] + [x for x in DT if x.day > 12]
    tpd2 = table(["s"], {"s": "str"}, [(x.strftime("%d/%m/%Y %H.%M.%S"),) for x in DTr])
    cases.append(("parse_datetime_fmt", "parse_datetime", M("parse_datetime", C("s"), V("%d/%m/%Y %H.%M.%S")), tpd2, lambda r: iso(datetime.datetime.strptime(r[0], "%d/%m/%Y %H.%M.%S"))))
    cases.append(("format_datetime_fmt", "format_datetime", M("format_datetime", C("t0"), V("%d/%m/%Y %H.%M.%S")), tdt, lambda r: r[0].strftime("%d/%m/%Y %H.%M.%S")))
    tp = table(["t0", "t1"], {"t0": "datetime", "t1": "datetime"}, [(x, x + datetime.timedelta(seconds=k)) for x in DT for k in (-86401, -1, 0, 1, 3600)])
    cases.append(("timestamp_diff", "timestamp_diff", M("timestamp_diff", C("t0"), C("t1")), tp, lambda r: (r[0] - r[1]).total_seconds()))
    return cases


def strict_row(f):
    return lambda r: None if r[0] is None else f(r[0])


# the AST renderer of mc.hist does not know raw fragments: render here
def render(e):
    if e[0] == "raw":
        return e[1]
    if e[0] == "rawarg":
        return e[1]
    if e[0] == "m":
        a = render(e[2])
        if e[2][0] != "c":
            a = "(" + a + ")"
        return a + "." + e[1] + "(" + ", ".join(render(x) for x in e[3:]) + ")"
    return H.render(e)


def catalog_flags():
    """(op, op_class) -> {'Pandas': flag, 'SQLiteModel': flag}; flags combined with 'y' winning if any row says so"""
    import data_algebra.op_catalog as oc

    t = oc.methods_table
    out = {}
    for _, row in t.iterrows():
        k = (row["op"], row["op_class"])
        d = out.setdefault(k, {"Pandas": set(), "SQLiteModel": set(), "PostgreSQLModel": set(), "expressions": []})
        for b in ("Pandas", "SQLiteModel", "PostgreSQLModel"):
            d[b].add(row[b])
        d["expressions"].append(row["expression"])
    return out


def supported(flags, key, backend):
    f = flags.get(key)
    if f is None:
        return False
    return f[backend] == {"y"}


def get_col(res, name):
    j = res[1].index(name)
    return [r[j] for r in res[2]]


def run_scalar_case(case, flags, part):
    import data_algebra

    name, op, ast, t, ref = case
    key = (op, "e")
    text = render(ast)
    from data_algebra.data_ops import TableDescription

    td = TableDescription(table_name="d", column_names=t["columns"])
    try:
        ops = td.extend({"r": text})
    except Exception as e:
        part.violation({"method": name, "expression": text, "error": repr(e)[:200]}, f"catalogued expression {text!r} is rejected by the builder: {type(e).__name__}")
        return
    part.count("method_pipelines")
    want = [ref(r) for r in t["rows"]]
    n_spec = sum(1 for w in want if w is not UNSPEC)
    part.count("cells_unspecified", len(want) - n_spec)
    bks = []
    if supported(flags, key, "Pandas"):
        bks.append("pandas")
    if supported(flags, key, "SQLiteModel"):
        bks.append("sqlite")
    bks.append("polars")
    if key not in flags:
        part.count("not_a_catalog_row:" + name)
    wholes = {}
    for bk in bks:
        whole = run_on(bk, ops, {"d": t})
        wholes[bk] = whole
        part.count("traces_validated_against_impl")
        per_row = None
        if whole[0] != "ok":
            if bk == "polars":
                part.count("polars_raised:" + name)
                part.outcome((name, bk, "raise"))
                continue
            # evaluate row by row: rows whose result is specified must not raise
            per_row = []
            for r in t["rows"]:
                one = dict(t, rows=[r])
                rr = run_on(bk, ops, {"d": one})
                per_row.append(rr)
        for k, r in enumerate(t["rows"]):
            w = want[k]
            if w is UNSPEC:
                continue
            if per_row is None:
                idx = get_col(whole, "i").index(r[-1])
                got = ("ok", get_col(whole, "r")[idx])
            else:
                rr = per_row[k]
                got = ("ok", get_col(rr, "r")[0]) if rr[0] == "ok" and len(rr[2]) == 1 else ("raise", rr[1] if rr[0] != "ok" else "wrong row count")
            part.count("cells_compared")
            okv = got[0] == "ok" and compare.val_eq(norm_any(got[1]), w if not isinstance(w, float) or not math.isnan(w) else None)
            part.outcome((name, bk, okv))
            if okv:
                part.count("cells_agree:" + bk)
                continue
            fid = finding_for(name, bk, r, w, got)
            if fid is not None and part.is_open(fid):
                part.known(fid, example={"method": name, "expression": text, "backend": bk, "args": list(r[:-1]), "documented": w, "got": got[1]})
                continue
            part.violation(
                {"method": name, "expression": text, "backend": bk, "args": [iso(x) for x in r[:-1]], "documented": w, "got": [got[0], norm_any(got[1]) if got[0] == "ok" else got[1]], "columns": t["columns"][:-1]},
                f"{bk}: {text} on {dict(zip(t['columns'][:-1], [iso(x) for x in r[:-1]]))} gives {(norm_any(got[1]) if got[0] == 'ok' else got[1])!r}, documented meaning gives {w!r}",
            )
    if name in CROSS_ONLY and wholes.get("pandas", ("raise",))[0] == "ok" and wholes.get("polars", ("raise",))[0] == "ok":
        # no documented numbering: Polars must still compute what Pandas computes
        pa = dict(zip(get_col(wholes["pandas"], "i"), get_col(wholes["pandas"], "r")))
        po = dict(zip(get_col(wholes["polars"], "i"), get_col(wholes["polars"], "r")))
        for r in t["rows"]:
            if r[0] is None:
                continue
            part.count("cells_compared_between_backends")
            if not compare.val_eq(norm_any(pa.get(r[-1])), norm_any(po.get(r[-1]))):
                part.violation(
                    {"method": name, "expression": text, "backend": "polars", "args": [iso(x) for x in r[:-1]], "pandas": norm_any(pa.get(r[-1])), "polars": norm_any(po.get(r[-1]))},
                    f"polars: {text} on {[iso(x) for x in r[:-1]]} gives {norm_any(po.get(r[-1]))!r}, Pandas gives {norm_any(pa.get(r[-1]))!r}",
                )
                break
    part.sample({"method": name, "expression": text, "rows": len(t["rows"]), "specified_cells": n_spec}, limit=2)


def finding_for(name, bk, args, want, got):
    """narrow matchers for listed findings (method, backend, argument predicate)"""
    return None


def run_on(bk, ops, data):
    if bk == "pandas":
        return backends.run_pandas(ops, data)
    if bk == "sqlite":
        g = backends.gen_sql(ops)
        return backends.run_sql(g[1], data) if g[0] == "ok" else g
    return backends.run_polars(ops, data, lazy=False)


# ------------------------------------------------------------------------------ aggregates

AGG_NUM = ["sum", "mean", "max", "min", "count", "size", "median", "std", "var", "nunique", "any_value"]
AGG_ZERO = ["_size", "_count"]
AGG_BOOL = ["all", "any"]
WIN = ["cumsum", "cummax", "cummin", "cumprod", "cumcount", "shift", "rank", "first", "last", "bfill", "ffill", "_row_number"]


def agg_table(max_len, values, vtype):
    rows = []
    gi = 0
    for n in range(1, max_len + 1):
        for seq in itertools.product(values, repeat=n):
            for pos, v in enumerate(seq):
                rows.append(("k%04d" % gi, pos, v))
            gi += 1
    return inputs.mk(["g", "o", "v"], {"g": "str", "o": "int", "v": vtype}, rows), gi


CONV = {"pandas": "pandas", "sqlite": "sql", "polars": "polars"}
DEVS = {"pandas": ["pandas.cumulative_null_rows", "pandas.cumcount_is_row_position"], "sqlite": [], "polars": []}


def run_agg_case(name, cls, tier, flags, part):
    max_len = 3 if tier == "quick" else 4
    if name in AGG_BOOL:
        t, ng = agg_table(max_len, [None, True, False], "bool")
    else:
        t, ng = agg_table(max_len, [None, 1.0, 2.0, 3.0], "float")
    e = F(name) if name.startswith("_") else M(name, C("v"))
    if cls in ("p", "up"):
        step = {"op": "project", "ops": {"r": e}, "group_by": ["g"]}
    elif cls == "g":
        step = {"op": "extend", "ops": {"r": e}, "partition_by": ["g"]}
    elif cls == "e":
        # an aggregate in a plain extend is taken over the whole table
        step = {"op": "extend", "ops": {"r": e}}
        t = dict(t, rows=[("k", pos, v) for pos, (_, _, v) in enumerate(t["rows"][:7])])
    else:
        step = {"op": "extend", "ops": {"r": e}, "partition_by": ["g"], "order_by": ["o"], "reverse": []}
    hist = {"table": "d", "columns": ["g", "o", "v"], "steps": [step]}
    try:
        ops = H.build(hist)
    except Exception as ex:
        part.violation({"method": name, "class": cls, "error": repr(ex)[:200]}, f"catalogued method {name} (class {cls}) is rejected by the builder: {type(ex).__name__}: {ex}")
        return
    part.count("method_pipelines")
    key = (name, cls)
    bks = []
    if supported(flags, key, "Pandas"):
        bks.append("pandas")
    if supported(flags, key, "SQLiteModel"):
        bks.append("sqlite")
    bks.append("polars")
    # reference per group (groups are independent: evaluate R group by group so that one
    # unspecified group does not hide the others)
    groups = {}
    for r in t["rows"]:
        groups.setdefault(r[0], []).append(r)
    for bk in bks:
        res = run_on(bk, ops, {"d": t})
        part.count("traces_validated_against_impl")
        if res[0] != "ok":
            if bk == "polars":
                part.count("polars_raised:" + name)
                continue
            part.violation({"method": name, "class": cls, "backend": bk, "error": compare.brief(res)}, f"{bk}: the catalogued method {name} (class {cls}) raises on the aggregate table: {res[1]}: {res[2][:120]}")
            continue
        gi = res[1].index("g")
        got_by_group = {}
        for row in res[2]:
            got_by_group.setdefault(row[gi], []).append(row)
        for gk, grows in groups.items():
            data_g = {"d": dict(t, rows=grows)}
            try:
                ref = R(CONV[bk], ()).eval(hist, data_g)
            except (Unspecified, Ambiguous):
                part.count("groups_unspecified")
                continue
            part.count("groups_compared")
            got = ("ok", res[1], got_by_group.get(gk, []))
            if compare.EQ(got, ref):
                part.count("groups_agree:" + bk)
                part.outcome((name, cls, bk, True))
                continue
            part.outcome((name, cls, bk, False))
            devs = [d for d in DEVS[bk] if part.is_open(d)]
            if devs:
                r2 = R(CONV[bk], devs)
                try:
                    ref2 = r2.eval(hist, data_g)
                    if compare.EQ(got, ref2) and r2.triggered:
                        for f in sorted(r2.triggered):
                            part.known(f, example={"method": name, "class": cls, "backend": bk, "values": [x[2] for x in grows], "got": compare.brief(got), "documented": compare.brief(ref)})
                        continue
                except (Unspecified, Ambiguous):
                    pass
            part.violation(
                {"method": name, "class": cls, "backend": bk, "history": hist, "values": [x[2] for x in grows], "got": compare.brief(got), "documented": compare.brief(ref)},
                f"{bk}: {name} (class {cls}) over the values {[x[2] for x in grows]} gives {[r[res[1].index('r')] for r in got[2]]}, documented meaning gives {[r[ref[1].index('r')] for r in ref[2]]}",
            )
    part.sample({"method": name, "class": cls, "groups": ng}, limit=1)


def all_cases(tier):
    items = [("scalar", i) for i in range(len(scalar_cases()))]
    for n in AGG_NUM + AGG_BOOL:
        items.append(("agg", n, "p"))
    for n in AGG_ZERO:
        items.append(("agg", n, "p"))
    for n in ["sum", "mean", "max", "min", "count", "size", "median", "std", "var", "nunique", "_size", "_count"]:
        items.append(("agg", n, "g"))
    for n in WIN:
        items.append(("agg", n, "w"))
    items.append(("agg", "any_value", "up"))
    items.append(("agg", "sum", "e"))
    return items


def work(items, tier, open_ids):
    part = core.Part(open_ids)
    flags = catalog_flags()
    sc = scalar_cases()
    for it in items:
        if it[0] == "scalar":
            run_scalar_case(sc[it[1]], flags, part)
        else:
            run_agg_case(it[1], it[2], tier, flags, part)
    return part.dump()


def run(tier):
    run = core.Run(PROP, tier)
    items = core.rotate(all_cases(tier), run.seed)
    for p in core.pmap(work, [([it], tier, list(run.open_findings)) for it in items]):
        run.merge(p)
    flags = catalog_flags()
    sc = scalar_cases()
    modelled = {(c[1], "e") for c in sc} | {(it[1], it[2]) for it in all_cases(tier) if it[0] == "agg"}
    not_modelled = sorted(str(k) for k in flags if k not in modelled)
    run.set("states", len(items))
    run.set("transitions", run.cov.get("cells_compared", 0) + run.cov.get("groups_compared", 0))
    run.set("evaluations", run.cov.get("cells_compared", 0) + run.cov.get("groups_compared", 0))
    run.assumptions += [
        "reference functions are transcribed from the expr_rep.Term docstrings (mc/props/c05.py); strict functions return null on a null argument; documented exceptions: maximum/minimum propagate, fmax/fmin ignore, if_else null on null condition, where takes the else branch, coalesce, is_null, is_bad, count",
        "unspecified and therefore not compared: domain errors, overflow, round() of halves, // % mod remainder unless both operands are non-negative integers with a positive divisor, comparison / logical operators with a null operand (the Pandas-vs-SQL difference there is booked under C01), as_int64 of a non-integer, is_nan / is_inf / is_in / mapv / concat / trimstr / as_str of null",
        "PostgreSQL flags are not executed (no server); Polars is tried for every method and a Polars exception is accepted",
    ]
    return run.finish(
        exhaustive=True,
        rule="every modelled catalogue method x {Pandas if 'y', SQLite if 'y', Polars always} x the complete product of its argument domains packed as the rows of one table (scalar methods), or every value sequence of length <= "
        + ("3" if tier == "quick" else "4")
        + " over {NULL,1,2,3} / {NULL,True,False} as a group of its own (aggregates and window functions)",
        extra={"catalogue_rows_not_modelled": not_modelled},
    )


def replay(doc):
    c = doc["case"]
    part = core.Part([f["id"] for f in core.load_findings() if f["status"] == "open"])
    flags = catalog_flags()
    if "class" in c:
        run_agg_case(c["method"], c["class"], "quick", flags, part)
    else:
        for sc in scalar_cases():
            if sc[0] == c["method"]:
                run_scalar_case(sc, flags, part)
    bad = [v for v in part.violations if v["case"].get("backend") == c.get("backend")]
    for v in bad[:5]:
        print(v["what"])
    return 1 if bad else 0
