"""
C15 - results do not depend on how tables and columns are named.

Explicit-state BFS over the real builder; every explored pipeline x every *single* renaming of
one input column, one step-introduced column or one table to each name of a list of names the
executors and the SQL generator use internally (scratch columns, join suffixes, CTE / alias
names, SQL keywords) plus a neutral control name; thorough adds all pairs of column renamings.
The renaming is applied to the history (step arguments, expressions) and to the inputs, the
pipeline is rebuilt and re-run.

Oracle (metamorphic): eval(rho(H), rho(X)) == rho(eval(H, X)) on Pandas, Polars and SQLite;
a renamed pipeline that is rejected, or fails to run, when the original ran is a violation too.
"""

import copy
import itertools

from mc import backends, compare, core, diff, explorer, inputs, menus
from mc import hist as H
from mc.props import c19

PROP = "C15"

NEUTRAL = "qq_neutral"

# names the executors / SQL generator use internally
COLUMN_NAMES = [
    NEUTRAL,
    "_data_table_temp_col",
    "data_algebra_temp_merge_col",
    "_data_algebra_temp_g",
    "_data_algebra_orig_index",
    "data_algebra_extend_temp_col_0",
    "data_algebra_project_temp_col_0",
    "_da_temp_one_column",
    "_da_temp_zero_column",
    "_da_extend_temp_partition_column",
    "_da_project_temp_group_by_column",
    "_da_extend_temp_v_column_0",
    "_da_count_tmp",
    "_da_join_tmp_no_key",
    "table_reference_0",
    "extend_1",
    "natural_join_0",
    "join_source_left_0",
    "join_source_right_0",
    "select",
    "order",
]
# names derived from another column c of the pipeline
DERIVED = ["{c}_tmp_right_col", "{c}_da_right_tmp", "{c}_da_left_tmp", "{c}_da_join_tmp_key"]
TABLE_NAMES = [NEUTRAL, "table_reference_0", "extend_1", "project_1", "natural_join_0", "join_source_left_0", "join_source_right_0", "concat_rows_2", "a", "b", "table_values", "select", "order", "e"]


def rename_step(st, cmap):
    st = copy.deepcopy(st)
    r = lambda c: cmap.get(c, c)
    op = st["op"]
    if op in ("extend", "project"):
        st["ops"] = {r(k): H.rename_expr(e, cmap) for k, e in st["ops"].items()}
        for k in ("partition_by", "order_by", "reverse", "group_by"):
            if isinstance(st.get(k), list):
                st[k] = [r(c) for c in st[k]]
    elif op == "select_rows":
        st["expr"] = H.rename_expr(st["expr"], cmap)
    elif op in ("select_columns", "drop_columns"):
        st["columns"] = [r(c) for c in st["columns"]]
    elif op == "rename_columns":
        st["map"] = {r(k): r(v) for k, v in st["map"].items()}
    elif op == "map_columns":
        st["map"] = {r(k): (None if v is None else r(v)) for k, v in st["map"].items()}
    elif op == "order_rows":
        st["columns"] = [r(c) for c in st["columns"]]
        st["reverse"] = [r(c) for c in (st.get("reverse") or [])]
    elif op in ("natural_join", "concat_rows"):
        if op == "natural_join" and st.get("on") is not None:
            st["on"] = [[r(o[0]), r(o[1])] if isinstance(o, (list, tuple)) else r(o) for o in st["on"]]
        if op == "concat_rows" and st.get("id_column") is not None:
            st["id_column"] = r(st["id_column"])
    elif op == "convert_records":
        def rs(s):
            if s is None:
                return None
            s = copy.deepcopy(s)
            ctk = s["control_table_keys"]
            ctl = {}
            for k, vals in s["control"].items():
                # control-table key columns name output columns; value cells name row-record columns
                ctl[r(k)] = list(vals) if k in ctk else [r(v) for v in vals]
            s["control"] = ctl
            s["record_keys"] = [r(c) for c in s["record_keys"]]
            s["control_table_keys"] = [r(c) for c in ctk]
            return s

        st["map"] = {"blocks_in": rs(st["map"].get("blocks_in")), "blocks_out": rs(st["map"].get("blocks_out"))}
    return st


def rename_hist(hist, cmap, tmap):
    """consistent renaming of columns (cmap) and tables (tmap) through a history"""
    out = {"table": tmap.get(hist["table"], hist["table"]), "steps": []}
    base_cols = hist.get("columns") or H.TABLES[hist["table"]]
    out["columns"] = [cmap.get(c, c) for c in base_cols]
    for st in hist["steps"]:
        st2 = rename_step(st, cmap)
        b = st.get("b")
        if isinstance(b, dict) and "table" in b:
            st2["b"] = rename_hist(b, cmap, tmap)
        out["steps"].append(st2)
    return out


def rename_data(data, cmap, tmap):
    return {tmap.get(k, k): inputs.rename_table(t, cmap) for k, t in data.items()}


def rename_result(res, cmap):
    if res[0] != "ok":
        return res
    return ("ok", [cmap.get(c, c) for c in res[1]], res[2])


def all_columns(hist, acc=None):
    """every column name a history mentions (inputs and step-introduced)"""
    if acc is None:
        acc = []

    def add(c):
        if isinstance(c, str) and c not in acc:
            acc.append(c)

    for c in hist.get("columns") or H.TABLES[hist["table"]]:
        add(c)
    for st in hist["steps"]:
        op = st["op"]
        if op in ("extend", "project"):
            for k in st["ops"]:
                add(k)
        elif op == "rename_columns":
            for k in st["map"]:
                add(k)
        elif op == "map_columns":
            for v in st["map"].values():
                add(v)
        elif op == "concat_rows":
            if st.get("id_column", "source_name") is not None:
                add(st.get("id_column", "source_name"))
        elif op == "convert_records":
            for side in ("blocks_in", "blocks_out"):
                s = st["map"].get(side)
                if s:
                    for k, vals in s["control"].items():
                        add(k)
                        if k not in s["control_table_keys"]:
                            for v in vals:
                                add(v)
        b = st.get("b")
        if isinstance(b, dict) and "table" in b:
            all_columns(b, acc)
    return acc


def renamings(hist, tier):
    """[(description, cmap, tmap)]"""
    cols = all_columns(hist)
    tabs = H.hist_tables(hist)
    out = []
    for c in cols:
        names = list(COLUMN_NAMES) + [d.format(c=o) for d in DERIVED for o in cols if o != c]
        for n in names:
            if n in cols:
                continue
            out.append((f"column {c} -> {n}", {c: n}, {}))
    for t in tabs:
        for n in TABLE_NAMES:
            if n in tabs:
                continue
            out.append((f"table {t} -> {n}", {}, {t: n}))
    return out


def uses_default_id_column(hist):
    return any(st["op"] == "concat_rows" and "id_column" not in st for st in hist["steps"])


def run_all(ops, data, want_sql=True):
    res = {"pandas": backends.run_pandas(ops, data), "polars": backends.run_polars(ops, data, lazy=False)}
    if want_sql:
        if backends.catalog_ok(ops):
            g = backends.gen_sql(ops)
            res["sqlite"] = backends.run_sql(g[1], data) if g[0] == "ok" else g
    return res


FINDING_NAMES = {
    # internal name -> finding id (narrow matcher: exactly this name, exactly this backend)
}


def join_name_sets(hist):
    """(shared non-key columns, key columns) over every natural_join of the history (and of its right sides)"""
    shared, keys = set(), set()

    def walk(h):
        cols, roles = (list(h["columns"]), {c: "n" for c in h["columns"]}) if "columns" in h else (list(H.TABLES[h["table"]]), dict(H.TABLE_ROLES[h["table"]]))
        states = [(cols, roles)]
        for st in h["steps"]:
            b = st.get("b")
            if isinstance(b, dict) and "table" in b:
                walk(b)
            if st["op"] == "natural_join":
                bc = menus.result_columns(b) if "table" in b else states[b["prefix"]][0]
                on = st.get("on") or []
                on_a = [o[0] if isinstance(o, (list, tuple)) else o for o in on]
                on_b = [o[1] if isinstance(o, (list, tuple)) else o for o in on]
                same = {a for a, bb in zip(on_a, on_b) if a == bb}
                shared.update((set(cols) & set(bc)) - same)
                keys.update(on_a)
                keys.update(on_b)
            cols, roles = menus.step_columns(st, cols, roles, states)
            states.append((cols, roles))

    walk(hist)
    return shared, keys


def classify(bk, desc, cmap, tmap, hist):
    """narrow matchers of listed findings: (backend, the internal name renamed to, step kinds present)"""
    target = list(cmap.values())[0] if cmap else list(tmap.values())[0]

    def all_steps(h):
        for st in h["steps"]:
            yield st
            b = st.get("b")
            if isinstance(b, dict) and "table" in b:
                yield from all_steps(b)

    kinds = {st["op"] for st in all_steps(hist)}
    windowed = any(st["op"] == "extend" and (st.get("partition_by") is not None or st.get("order_by")) for st in all_steps(hist))
    if bk == "pandas":
        if target in ("_data_algebra_temp_g", "_data_algebra_orig_index") and windowed:
            return "names.pandas_window_scratch_columns"
        if target == "data_algebra_extend_temp_col_0" and windowed:
            return "names.pandas_window_scratch_columns"
        if target in ("_data_table_temp_col", "data_algebra_project_temp_col_0") and "project" in kinds:
            return "names.pandas_project_scratch_columns"
        if target == "data_algebra_temp_merge_col" and "natural_join" in kinds:
            return "names.pandas_join_scratch_columns"
        if target.endswith("_tmp_right_col") and "natural_join" in kinds:
            # the merge suffix only collides next to a shared non-key column of that very name
            shared, _ = join_name_sets(hist)
            if target[: -len("_tmp_right_col")] in shared:
                return "names.pandas_join_scratch_columns"
    if bk == "polars":
        if target.startswith("_da_") and (kinds & {"extend", "project"}):
            return "names.polars_scratch_columns"
        if "natural_join" in kinds:
            shared, keys = join_name_sets(hist)
            for suf, pool in (("_da_right_tmp", shared | keys), ("_da_left_tmp", shared | keys), ("_da_join_tmp_key", keys)):
                if target.endswith(suf) and target[: -len(suf)] in pool:
                    return "names.polars_join_suffixes"
    if bk == "sqlite":
        if cmap and (target in ("table_reference_0", "extend_1", "natural_join_0", "join_source_left_0", "join_source_right_0")):
            return None
        if tmap and target in ("table_reference_0", "extend_1", "project_1", "natural_join_0", "join_source_left_0", "join_source_right_0", "concat_rows_2", "table_values"):
            return "names.sql_generated_view_names_capture_tables"
    return None


CHUNK = 40


def work(hists, tier, open_ids, chunk=None):
    part = core.Part(open_ids)
    for hist in hists:
        try:
            ops = H.build(hist)
        except Exception:
            continue
        part.count("states_evaluated")
        tabs = H.hist_tables(hist)
        if True:
            # (both tiers) a name capture does not depend on the data: empty, every single row, and the whole alphabet
            datas = inputs.data_maps(tabs, 1, 1, inputs.D_ROWS_Q, inputs.E_ROWS_Q)
            full = {t: (inputs.mk(["g", "x", "y"], inputs.D_TYPES, inputs.D_ROWS_Q) if t == "d" else inputs.mk(["g", "w", "y"], inputs.E_TYPES, inputs.E_ROWS_Q)) for t in tabs}
            datas = [dm for dm in datas if not ("e" in dm and len(dm["e"]["rows"]) == 0 and len(dm["d"]["rows"]) > 0)] + [full]
        else:
            datas = inputs.data_maps(tabs, 2, 1, inputs.D_ROWS_Q, inputs.E_ROWS_Q)
        base = [(data, run_all(ops, data)) for data in datas]
        rens = renamings(hist, tier)
        if chunk is not None:
            rens = rens[chunk * CHUNK : (chunk + 1) * CHUNK]
        for desc, cmap, tmap in rens:
            part.count("renamings")
            rh = rename_hist(hist, cmap, tmap)
            try:
                rops = H.build(rh)
                built = None
            except Exception as e:
                rops = None
                built = type(e).__name__ + ": " + str(e)[:120]
            if rops is None:
                part.violation({"history": hist, "renaming": desc, "renamed_history": rh, "error": built}, f"the renamed pipeline is rejected by the builder ({built}) although the original is accepted: {desc}: {H.short(hist)}")
                continue
            rsql = None
            flagged = set()
            for data, b in base:
                rdata = rename_data(data, cmap, tmap)
                rr = run_all(rops, rdata, want_sql=("sqlite" in b))
                for bk, r0 in b.items():
                    if bk in flagged:
                        continue
                    r1 = rr.get(bk)
                    part.count("traces_validated_against_impl")
                    part.outcome((bk, r0[0], r1[0] if r1 else None))
                    if r0[0] != "ok":
                        continue  # the original does not run here: nothing to preserve
                    want = rename_result(r0, cmap)
                    if r1 is not None and r1[0] == "ok" and diff.results_equal(rh, want, r1):
                        part.count("agree:" + bk)
                        continue
                    flagged.add(bk)
                    fid = classify(bk, desc, cmap, tmap, hist)
                    if fid is not None and part.is_open(fid):
                        part.known(fid, example={"history": H.short(hist), "renaming": desc, "backend": bk, "expected": compare.brief(want), "got": compare.brief(r1) if r1 else None})
                        continue
                    part.violation(
                        {"history": hist, "renaming": desc, "cmap": cmap, "tmap": tmap, "data": data, "backend": bk, "original_result_renamed": compare.brief(want), "renamed_pipeline_result": compare.brief(r1) if r1 else None},
                        f"{bk}: renaming {desc} changes the result beyond the renaming: {H.short(hist)}",
                    )
        part.sample({"history": H.short(hist), "renamings": len(renamings(hist, tier))}, limit=1)
    return part.dump()


def run(tier):
    run = core.Run(PROP, tier)
    ex1 = explorer.Explorer(menus.core_menu)
    s1 = ex1.run(1)
    states = list(s1)
    trans = ex1.stats()["transitions"]
    if tier != "quick":
        ex2 = explorer.Explorer(c19.c19_slice)
        s2 = ex2.run(2)
        trans += ex2.stats()["transitions"]
        seen = {s.key for s in states}
        states += [s for s in s2 if s.key not in seen]
    hists = [s.hist for s in states if not uses_default_id_column(s.hist)]
    hists = core.rotate(hists, run.seed)
    tasks = []
    for h in hists:
        n = len(renamings(h, tier))
        for ci in range((n + CHUNK - 1) // CHUNK):
            tasks.append(([h], tier, list(run.open_findings), ci))
    for p in core.pmap(work, core.rotate(tasks, run.seed)):
        run.merge(p)
    run.cov["states_evaluated"] = len(hists)
    run.set("states", len(hists))
    run.set("transitions", trans)
    run.assumptions += [
        "single renamings: one column (input or step-introduced) or one table at a time, to each listed internal name, to the names derived from every other column by the join suffixes, and to a neutral control name",
        "the renamed history is rebuilt from scratch; expression texts are re-rendered with the new names",
        "where the original pipeline does not run on a backend nothing is compared for that backend",
    ]
    return run.finish(
        exhaustive=True,
        rule=f"every state at depth <= 1 over the core menu"
        + (" and <= 2 over a one-entry-per-operator slice" if tier != "quick" else "")
        + f" x every single renaming of one of its columns to {len(COLUMN_NAMES)} listed names and {len(DERIVED)} suffix patterns per other column, and of one of its tables to {len(TABLE_NAMES)} names x the empty table, every single row and the whole 3-row alphabet, on Pandas, Polars and SQLite",
    )


def replay(doc):
    c = doc["case"]
    d = work([c["history"]], "thorough", [])
    bad = [v for v in d["violations"] if v["case"].get("renaming") == c.get("renaming")]
    for v in bad[:5]:
        print(v["what"])
    return 1 if bad else 0
