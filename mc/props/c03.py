"""
C03 - the Polars executor agrees with Pandas whenever it returns a result.

Same explicit-state space as C01 (all builder step sequences to a depth over the core menu)
x every small input, inputs converted to Polars eager and lazy frames.  Raising is accepted
(counted per exception class); a returned table must equal the Pandas table as a multiset.
"""

from mc import backends, compare, core, diff, explorer, inputs, menus
from mc import hist as H
from mc.props import c01

PROP = "C03"


def tier_cfg(tier):
    if tier == "quick":
        return {"depth": 2, "kd": 2, "ke": 1, "slice_depth": 0, "d_rows": inputs.D_ROWS_Q, "e_rows": inputs.E_ROWS_Q, "eager_model": False}
    return {"depth": 2, "kd": 3, "ke": 2, "slice_depth": 2, "d_rows": inputs.D_ROWS, "e_rows": inputs.E_ROWS, "eager_model": True}


def method_menu(cols, roles, depth, hist):
    """one step per catalogued method family that the core menu does not use (aggregates in project and
    partitioned extend, scalar methods in plain extend), so that the Polars expression map is covered"""
    from mc.hist import C, V, O, M, F

    K, N = menus._pick(cols, roles)
    if len(N) < 2 or not K:
        return []
    A, B, g = N[0], N[1], K[0]
    items = []
    for fn in ("median", "std", "var", "nunique", "size", "min", "max", "mean", "count", "sum"):
        items.append({"op": "project", "ops": {"s": M(fn, C(B))}, "group_by": [g]})
        items.append({"op": "project", "ops": {"s": M(fn, C(B))}, "group_by": []})
        items.append({"op": "extend", "ops": {"z": M(fn, C(B))}, "partition_by": [g]})
    for fn in ("abs", "sign", "floor", "ceil", "round", "sqrt", "exp", "log", "sin", "cos", "is_bad", "is_null", "coalesce_0", "as_int64"):
        items.append({"op": "extend", "ops": {"z": M(fn, C(B if fn != "as_int64" else A))}})
    for fn in ("fmax", "fmin", "minimum", "maximum", "coalesce"):
        items.append({"op": "extend", "ops": {"z": M(fn, C(A), C(B))}})
        items.append({"op": "extend", "ops": {"z": M(fn, C(B), C(A))}})
    for op in ("+", "-", "*", "/", "//", "%", "**", "<", "<=", ">=", "=="):
        items.append({"op": "extend", "ops": {"z": O(op, C(A), C(B))}})
    items.append({"op": "extend", "ops": {"z": M("if_else", O(">", C(B), V(1)), C(A), C(B))}})
    items.append({"op": "extend", "ops": {"z": M("where", O(">", C(B), V(1)), C(A), C(B))}})
    items.append({"op": "extend", "ops": {"z": M("is_in", C(A), ["v", None])}}) if False else None
    items.append({"op": "extend", "ops": {"z": M("concat", C(g), V("_s"))}})
    items.append({"op": "extend", "ops": {"z": M("trimstr", C(g), V(0), V(1))}})
    return [i for i in items if i is not None]


def work(hists, cfg, open_ids):
    part = core.Part(open_ids)
    for hist in hists:
        ops = H.build(hist)
        part.count("states_evaluated")
        kind = hist["steps"][-1]["op"] if hist["steps"] else "table"
        tabs = H.hist_tables(hist)
        for data in inputs.data_maps(tabs, cfg["kd"], cfg["ke"], cfg["d_rows"], cfg["e_rows"]):
            a = backends.run_pandas(ops, data)
            variants = [("polars_eager", False), ("polars_lazy", True)]
            for vname, lazy in variants:
                b = backends.run_polars(ops, data, lazy=lazy)
                part.count("traces_validated_against_impl")
                if b[0] == "raise":
                    part.count("polars_raised:" + b[1])
                    part.outcome(("raise", kind, b[1]))
                    continue
                part.count("polars_returned:" + kind)
                if a[0] == "raise":
                    # nothing to compare with: Pandas failing is C01's business
                    part.count("pandas_raised_polars_returned")
                    continue
                v = diff.decide_pair(hist, data, "pandas", a, "pandas", "polars", b, "polars", part, case_extra={"variant": vname}, check_order=False)
                part.outcome((v, kind, len(b[2])))
                if v == "agree":
                    part.sample({"history": H.short(hist), "data": {k: t["rows"] for k, t in data.items()}, "variant": vname, "result": compare.brief(b, 4)}, limit=1)
    return part.dump()


def run(tier):
    cfg = tier_cfg(tier)
    run = core.Run(PROP, tier)
    ex = explorer.Explorer(menus.core_menu_q if tier == "quick" else menus.core_menu)
    states = ex.run(cfg["depth"])
    hists = [s.hist for s in states]
    st = ex.stats()
    extra = {"core_depth": cfg["depth"], "core_states": st["states"]}
    if cfg["slice_depth"]:
        ex2 = explorer.Explorer(c01.slice_menu)
        st2 = ex2.run(cfg["slice_depth"])
        seen = {s.key for s in states}
        add = [s.hist for s in st2 if s.key not in seen]
        hists += add
        s2 = ex2.stats()
        extra.update({"slice_depth": cfg["slice_depth"], "slice_states": s2["states"], "slice_new_states": len(add)})
        st["states"] += len(add)
        st["transitions"] += s2["transitions"]
    ex4 = explorer.Explorer(method_menu)
    st4 = ex4.run(1)
    seen_h0 = {H.hist_key(h) for h in hists}
    add4 = [s.hist for s in st4 if H.hist_key(s.hist) not in seen_h0]
    hists += add4
    extra.update({"method_slice_states": len(add4)})
    st["states"] += len(add4)
    st["transitions"] += ex4.stats()["transitions"]
    ex5 = explorer.Explorer(c01.cdata_menu)
    st5 = ex5.run(4)
    hists += [s.hist for s in st5 if s.hist["steps"]]
    st["states"] += len(st5) - 1
    st["transitions"] += ex5.stats()["transitions"]
    chain_depth = 3 if tier == "quick" else 4
    ex3 = explorer.Explorer(c01.chain_menu)
    st3 = ex3.run(chain_depth)
    seen_h = {H.hist_key(h) for h in hists}
    add3 = [s.hist for s in st3 if H.hist_key(s.hist) not in seen_h]
    hists += add3
    extra.update({"chain_depth": chain_depth, "chain_new_states": len(add3)})
    st["states"] += len(add3)
    st["transitions"] += ex3.stats()["transitions"]
    hists = core.rotate(hists, run.seed)
    open_ids = list(run.open_findings)
    for p in core.pmap(work, [(c, cfg, open_ids) for c in core.chunks(hists, 40)]):
        run.merge(p)
    run.set("states", st["states"])
    run.set("transitions", st["transitions"])
    returned = {k.split(":", 1)[1]: v for k, v in run.cov.items() if k.startswith("polars_returned:")}
    extra["polars_returned_by_last_step_kind"] = returned
    kinds = {"table", "extend", "project", "select_rows", "select_columns", "drop_columns", "rename_columns", "map_columns", "order_rows", "natural_join", "concat_rows"}
    extra["step_kinds_with_zero_polars_returns"] = sorted(kinds - set(returned))
    run.assumptions += [
        "a Polars exception of any class is accepted (the property allows raising); the pinned Polars has dropped Expr.cumsum/cummax, so every cumulative window raises here",
        "Pandas-side listed findings are excused through the exact as-is model so that a Pandas defect is not booked against Polars",
        "row order is not compared (the property compares multisets)",
    ]
    return run.finish(
        exhaustive=True,
        rule=f"all pipelines reachable in <= {cfg['depth']} builder calls over the core menu" + (" (quick tier: the first call from a thinner one-per-shape selection of the menu, every later call from the full menu)" if tier == "quick" else "")
        + (f" plus <= {cfg['slice_depth']} calls over the SQL-translation slice" if cfg["slice_depth"] else "")
        + f" plus <= {chain_depth} calls over the extend-chain slice and one call over the method slice (every catalogued aggregate in project / partitioned extend, scalar methods and operators in plain extend)"
        + f", each on all multisets of <= {cfg['kd']} rows over the {len(cfg['d_rows'])}-row alphabet of d (<= {cfg['ke']} rows of e when read), as pl.DataFrame and pl.LazyFrame; a case is one (pipeline, input, frame kind) triple",
        extra=extra,
    )


def replay(doc):
    case = doc["case"]
    hist, data = case["history"], case["data"]
    ops = H.build(hist)
    print(H.short(hist))
    a = backends.run_pandas(ops, data)
    print("input ", {k: t["rows"] for k, t in data.items()})
    print("pandas", compare.brief(a))
    rc = 0
    part = core.Part([f["id"] for f in core.load_findings() if f["status"] == "open"])
    for lazy in (False, True):
        b = backends.run_polars(ops, data, lazy=lazy)
        print("polars lazy=%s" % lazy, compare.brief(b))
        if b[0] == "ok" and a[0] == "ok":
            v = diff.decide_pair(hist, data, "pandas", a, "pandas", "polars", b, "polars", part, check_order=False)
            print("verdict:", v)
            if v == "violation":
                rc = 1
    return rc
