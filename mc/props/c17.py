"""
C17 - record transforms are invertible and compose as documented.

Exhaustive input enumeration over a bounded family of strict record specifications (1-2
control-table key columns, 2-3 block rows, 1-2 value columns, 0-2 record keys, two cell-name
arrangements) x every record-keyed table with <= 2 (thorough 3) records whose cells follow one of
a fixed set of value patterns (all null, constant, all distinct, one null), in both directions.

Oracles:
  * inverse: m.inverse().transform(m.transform(X)) == X for rows->blocks->rows and blocks->rows->blocks;
  * reference: m.transform(X) equals the reference pivot / un-pivot of mc/refmodel.py (a pair of
    transforms that are wrong in a mutually consistent way would survive the round trip alone);
  * composition: for all composable pairs (a then b) over the same record keys,
    (a >> b).transform(X) and b.compose(a).transform(X) equal b.transform(a.transform(X));
  * Pandas and Polars agree on every transform (a Polars exception on a valid layout is reported).
"""

import itertools

from mc import backends, compare, core, inputs
from mc.refmodel import R, Unspecified

PROP = "C17"

PATTERNS = ["null", "ones", "distinct", "one_null"]


def layouts(tier):
    """[spec dict as used by mc.hist.record_map_from_spec: control, record_keys, control_table_keys]"""
    out = []
    for nk, nr, nv, rk, arr in itertools.product((1, 2), (2, 3), (1, 2), ([], ["g"], ["g", "h"]), (0, 1)):
        if nk == 1:
            keyrows = [("k%d" % i,) for i in range(nr)]
            keycols = ["key"]
        else:
            keyrows = [("a", "p"), ("a", "q"), ("b", "p")][:nr]
            keycols = ["key", "sub"]
        cells = ["c%d" % i for i in range(nr * nv)]
        if arr == 1:
            cells = list(reversed(cells))
        control = {}
        for j, kc in enumerate(keycols):
            control[kc] = [kr[j] for kr in keyrows]
        for v in range(nv):
            control["val%d" % v] = [cells[i * nv + v] for i in range(nr)]
        out.append({"control": control, "record_keys": list(rk), "control_table_keys": keycols})
    if tier == "quick":
        return out
    # thorough: also key columns listed after the value columns, and a non-contiguous cell arrangement
    extra = []
    for s in out:
        c = s["control"]
        vals = {k: v for k, v in c.items() if k not in s["control_table_keys"]}
        keys = {k: v for k, v in c.items() if k in s["control_table_keys"]}
        extra.append({"control": dict(list(vals.items()) + list(keys.items())), "record_keys": s["record_keys"], "control_table_keys": s["control_table_keys"]})
    return out + extra


def spec_cells(s):
    ctk = s["control_table_keys"]
    vcols = [c for c in s["control"] if c not in ctk]
    nr = len(s["control"][vcols[0]])
    return [s["control"][v][i] for i in range(nr) for v in vcols]


def record_values(cells, pattern):
    if pattern == "null":
        return {c: None for c in cells}
    if pattern == "ones":
        return {c: 1 for c in cells}
    if pattern == "distinct":
        return {c: i + 1 for i, c in enumerate(cells)}
    d = {c: i + 1 for i, c in enumerate(cells)}
    d[cells[len(cells) // 2]] = None
    return d


def row_tables(s, max_records):
    """all row-record tables with <= max_records records over the value patterns"""
    cells = spec_cells(s)
    rk = s["record_keys"]
    keyvals = [("r1", "s1"), ("r2", "s1"), ("r1", "s2")]
    cols = rk + cells
    types = {c: "str" for c in rk}
    types.update({c: "int" for c in cells})
    out = []
    nmax = max_records if rk else 1
    for n in range(0, nmax + 1):
        for pats in itertools.product(PATTERNS, repeat=n):
            rows = []
            for i, p in enumerate(pats):
                vals = record_values(cells, p)
                rows.append(tuple(keyvals[i][: len(rk)]) + tuple(vals[c] for c in cells))
            out.append(inputs.mk(cols, types, rows))
    return out


def mk_map(blocks_in, blocks_out):
    from mc.hist import record_map_from_spec

    return record_map_from_spec({"blocks_in": blocks_in, "blocks_out": blocks_out})


def transform(m, t, kind):
    """run RecordMap.transform on a table dict -> result tuple"""
    try:
        if kind == "pandas":
            return backends.frame_result(m.transform(inputs.to_pandas(t)))
        return backends.polars_result(m.transform(inputs.to_polars(t)))
    except BaseException as e:
        if isinstance(e, (KeyboardInterrupt, SystemExit)):
            raise
        return backends._exc(e)


def as_table(res, types_hint):
    """result tuple -> table dict (so that it can be fed to the next transform)"""
    cols = res[1]
    types = {}
    for j, c in enumerate(cols):
        vals = [r[j] for r in res[2] if r[j] is not None]
        if c in types_hint:
            types[c] = types_hint[c]
        elif vals and all(isinstance(v, str) for v in vals):
            types[c] = "str"
        else:
            types[c] = "float" if any(isinstance(v, float) and not float(v).is_integer() for v in vals) else "int"
    rows = [tuple((int(v) if (types[c] == "int" and v is not None) else v) for c, v in zip(cols, r)) for r in res[2]]
    return inputs.mk(cols, types, rows)


def ref_blocks(s, t):
    r = R("sql")
    cols = t["columns"]
    rows = [dict(zip(cols, x)) for x in t["rows"]]
    c2, out = r.rowrecs_to_blocks(s, cols, rows)
    return ("ok", c2, [tuple(o[c] for c in c2) for o in out])


def block_types(s):
    ty = {c: "str" for c in s["record_keys"]}
    for c in s["control"]:
        ty[c] = "str" if c in s["control_table_keys"] else "int"
    return ty


def row_types(s):
    ty = {c: "str" for c in s["record_keys"]}
    for c in spec_cells(s):
        ty[c] = "int"
    return ty


def work(specs, tier, open_ids):
    part = core.Part(open_ids)
    max_records = 2 if tier == "quick" else 3
    for s in specs:
        try:
            to_blocks = mk_map(None, s)
            to_rows = mk_map(s, None)
        except Exception as e:
            part.violation({"spec": s, "error": repr(e)[:200]}, f"a strict record specification of the family is rejected: {type(e).__name__}: {e}")
            continue
        part.count("layouts")
        inv1 = to_blocks.inverse()
        inv2 = to_rows.inverse()
        for t in row_tables(s, max_records):
            part.count("tables")
            case = {"spec": s, "rows": t}
            res = {}
            for kind in ("pandas", "polars"):
                b = transform(to_blocks, t, kind)
                part.count("traces_validated_against_impl")
                res[kind] = b
                if b[0] != "ok":
                    part.violation(dict(case, backend=kind, error=compare.brief(b)), f"{kind}: rows -> blocks raises on a valid layout and table: {b[1]}: {b[2][:100]}")
                    continue
                ref = ref_blocks(s, t)
                part.outcome((kind, len(b[2])))
                if not compare.EQ(b, ref):
                    part.violation(dict(case, backend=kind, got=compare.brief(b, 12), reference=compare.brief(ref, 12)), f"{kind}: rows -> blocks differs from the reference un-pivot")
                    continue
                part.count("reference_agree:" + kind)
                # rows -> blocks -> rows through inverse()
                bt = as_table(b, block_types(s))
                back = transform(inv1, bt, kind)
                part.count("traces_validated_against_impl")
                want = ("ok", t["columns"], t["rows"])
                if back[0] != "ok" or not compare.EQ(back, want):
                    part.violation(dict(case, backend=kind, blocks=compare.brief(b, 12), back=compare.brief(back, 12)), f"{kind}: inverse() does not undo rows -> blocks")
                    continue
                part.count("inverse_round_trips")
                # blocks -> rows -> blocks, starting from the block form
                r2 = transform(to_rows, bt, kind)
                part.count("traces_validated_against_impl")
                if r2[0] != "ok" or not compare.EQ(r2, want):
                    part.violation(dict(case, backend=kind, blocks=compare.brief(b, 12), rows_back=compare.brief(r2, 12)), f"{kind}: blocks -> rows does not return the row records the blocks were made from")
                    continue
                b2 = transform(inv2, as_table(r2, row_types(s)), kind)
                part.count("traces_validated_against_impl")
                if b2[0] != "ok" or not compare.EQ(b2, b):
                    part.violation(dict(case, backend=kind, blocks=compare.brief(b, 12), blocks_back=compare.brief(b2, 12)), f"{kind}: inverse() does not undo blocks -> rows")
                    continue
                part.count("inverse_round_trips")
            if res["pandas"][0] == "ok" and res["polars"][0] == "ok" and not compare.EQ(res["pandas"], res["polars"]):
                part.violation(dict(case, pandas=compare.brief(res["pandas"], 12), polars=compare.brief(res["polars"], 12)), "Pandas and Polars disagree on a record transform")
        part.sample({"control": s["control"], "record_keys": s["record_keys"], "tables": len(row_tables(s, max_records))}, limit=1)
    return part.dump()


def compose_work(pairs, tier, open_ids):
    """pairs: (spec1, spec2) with equal record keys and equal cell sets; a: blocks(spec1)->rows, b: rows->blocks(spec2)"""
    part = core.Part(open_ids)
    max_records = 2 if tier == "quick" else 3
    for s1, s2 in pairs:
        a = mk_map(s1, None)  # blocks -> rows
        b = mk_map(None, s2)  # rows -> blocks
        a0 = mk_map(None, s1)  # rows -> blocks(s1), to make inputs for a
        forms = {}
        try:
            forms["rshift"] = a >> b
        except Exception as e:
            part.violation({"spec_a": s1, "spec_b": s2, "error": repr(e)[:200]}, f"a >> b raises for two maps with matching record keys: {type(e).__name__}: {e}")
        try:
            forms["compose"] = b.compose(a)
        except Exception as e:
            part.violation({"spec_a": s1, "spec_b": s2, "error": repr(e)[:200]}, f"b.compose(a) raises for two maps with matching record keys: {type(e).__name__}: {e}")
        part.count("composed_pairs")
        # also rows -> blocks(s1) -> rows (the composite of a map and its inverse may be None = identity)
        for t in row_tables(s1, max_records):
            x = transform(a0, t, "pandas")
            if x[0] != "ok":
                continue
            xt = as_table(x, block_types(s1))
            step1 = transform(a, xt, "pandas")
            if step1[0] != "ok":
                continue
            seq = transform(b, as_table(step1, row_types(s1)), "pandas")
            part.count("traces_validated_against_impl")
            for fname, f in forms.items():
                if f is None:
                    got = ("ok", xt["columns"], xt["rows"])
                else:
                    got = transform(f, xt, "pandas")
                part.count("compositions_checked")
                part.outcome((fname, got[0], len(got[2]) if got[0] == "ok" else -1))
                if seq[0] != "ok" or got[0] != "ok" or not compare.EQ(got, seq):
                    part.violation(
                        {"spec_a": s1, "spec_b": s2, "form": fname, "input_blocks": xt, "sequential": compare.brief(seq, 12), "composed": compare.brief(got, 12)},
                        f"{fname}: the composed record map differs from applying the two maps one after the other",
                    )
                    break
    return part.dump()


def run(tier):
    run = core.Run(PROP, tier)
    L = layouts(tier)
    for p in core.pmap(work, [([s], tier, list(run.open_findings)) for s in core.rotate(L, run.seed)]):
        run.merge(p)
    # composable pairs: same record keys, same set of cell names
    pairs = []
    for s1, s2 in itertools.product(L, L):
        if s1["record_keys"] == s2["record_keys"] and sorted(spec_cells(s1)) == sorted(spec_cells(s2)):
            pairs.append((s1, s2))
    for p in core.pmap(compose_work, [(c, tier, list(run.open_findings)) for c in core.chunks(core.rotate(pairs, run.seed), 8)]):
        run.merge(p)
    run.set("states", len(L) + len(pairs))
    run.set("transitions", run.cov.get("tables", 0) + run.cov.get("compositions_checked", 0))
    run.set("evaluations", run.cov.get("traces_validated_against_impl", 0))
    run.assumptions += [
        "record specifications: strict, 1-2 control-table key columns, 2-3 block rows, 1-2 value columns, record keys [], [g] or [g, h], cell names distinct; data: complete blocks, <= 2 (3) records, cell values following the patterns all-null / constant / all-distinct / one-null",
        "row order of a transform's result is not compared",
        "composable pairs: blocks(spec a) -> rows followed by rows -> blocks(spec b) over the same record keys and the same cell names",
    ]
    return run.finish(
        exhaustive=True,
        rule=f"{len(L)} record specifications x all record-keyed tables with <= {2 if tier == 'quick' else 3} records over 4 cell-value patterns, both directions, Pandas and Polars; {len(pairs)} composable pairs of maps x the same tables",
    )


def replay(doc):
    c = doc["case"]
    part = core.Part([])
    if "spec" in c:
        d = work([c["spec"]], "thorough", [])
    else:
        d = compose_work([(c["spec_a"], c["spec_b"])], "thorough", [])
    for v in d["violations"][:5]:
        print(v["what"])
    return 1 if d["violations"] else 0
