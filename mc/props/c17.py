"""
C17 - record transforms are invertible and compose as documented.

Exhaustive input enumeration over a bounded family of strict record specifications (1-2
control-table key columns, 2-3 block rows, 1-2 value columns, 0-2 record keys, two cell-name
arrangements) x every record-keyed table with <= 2 (thorough 3) records whose cells follow one of
a fixed set of value patterns (all null, constant, all distinct, one null), in both directions.

Oracles:
  * inverse: m.inverse().transform(m.transform(X)) == X for rows->blocks->rows and blocks->rows->blocks;
  * reference: m.transform(X) equals the reference pivot / un-pivot of mc/refmodel.py (a pair of
    transforms that are wrong in a mutually consistent way would survive the round trip alone);
  * composition: for all composable pairs (a then b) over the same record keys,
    (a >> b).transform(X) and b.compose(a).transform(X) equal b.transform(a.transform(X));
  * Pandas and Polars agree on every transform (a Polars exception on a valid layout is reported).
"""

import itertools

from mc import backends, compare, core, inputs
from mc.refmodel import R, Unspecified

PROP = "C17"

PATTERNS = ["null", "ones", "distinct", "one_null"]


def layouts(tier):
    """[spec dict as used by mc.hist.record_map_from_spec: control, record_keys, control_table_keys]"""
    out = []
    for nk, nr, nv, rk, arr in itertools.product((1, 2), (2, 3), (1, 2), ([], ["g"], ["g", "h"]), (0, 1)):
        if nk == 1:
            keyrows = [("k%d" % i,) for i in range(nr)]
            keycols = ["key"]
        else:
            keyrows = [("a", "p"), ("a", "q"), ("b", "p")][:nr]
            keycols = ["key", "sub"]
        cells = ["c%d" % i for i in range(nr * nv)]
        if arr == 1:
            cells = list(reversed(cells))
        control = {}
        for j, kc in enumerate(keycols):
            control[kc] = [kr[j] for kr in keyrows]
        for v in range(nv):
            control["val%d" % v] = [cells[i * nv + v] for i in range(nr)]
        out.append({"control": control, "record_keys": list(rk), "control_table_keys": keycols})
    # key columns that are not the leading columns of the control table (C17-r4m2): listed after the value
    # columns, and between two value columns; quick takes this for the two-row contiguous layouts only
    extra = []
    for s in out:
        c = s["control"]
        if tier == "quick" and (len(next(iter(c.values()))) != 2 or c["val0"][0] != "c0"):
            continue
        vals = {k: v for k, v in c.items() if k not in s["control_table_keys"]}
        keys = {k: v for k, v in c.items() if k in s["control_table_keys"]}
        extra.append({"control": dict(list(vals.items()) + list(keys.items())), "record_keys": s["record_keys"], "control_table_keys": s["control_table_keys"]})
        if len(vals) == 2:
            (v0, v1) = list(vals.items())
            extra.append({"control": dict([v0] + list(keys.items()) + [v1]), "record_keys": s["record_keys"], "control_table_keys": s["control_table_keys"]})
    return out + extra


def spec_cells(s):
    ctk = s["control_table_keys"]
    vcols = [c for c in s["control"] if c not in ctk]
    nr = len(s["control"][vcols[0]])
    return [s["control"][v][i] for i in range(nr) for v in vcols]


def record_values(cells, pattern):
    if pattern == "null":
        return {c: None for c in cells}
    if pattern == "ones":
        return {c: 1 for c in cells}
    if pattern == "distinct":
        return {c: i + 1 for i, c in enumerate(cells)}
    d = {c: i + 1 for i, c in enumerate(cells)}
    d[cells[len(cells) // 2]] = None
    return d


def row_tables(s, max_records):
    """all row-record tables with <= max_records records over the value patterns"""
    cells = spec_cells(s)
    rk = s["record_keys"]
    # distinct record keys; with two key columns the first one repeats
    keyvals = [("r1", "s1"), ("r2", "s1"), ("r1", "s2")] if len(rk) > 1 else [("r1",), ("r2",), ("r3",)]
    cols = rk + cells
    types = {c: "str" for c in rk}
    types.update({c: "int" for c in cells})
    out = []
    nmax = max_records if rk else 1
    for n in range(0, nmax + 1):
        for pats in itertools.product(PATTERNS, repeat=n):
            rows = []
            for i, p in enumerate(pats):
                vals = record_values(cells, p)
                rows.append(tuple(keyvals[i][: len(rk)]) + tuple(vals[c] for c in cells))
            out.append(inputs.mk(cols, types, rows))
    return out


def mk_map(blocks_in, blocks_out):
    from mc.hist import record_map_from_spec

    return record_map_from_spec({"blocks_in": blocks_in, "blocks_out": blocks_out})


def transform(m, t, kind):
    """run RecordMap.transform on a table dict -> result tuple"""
    try:
        if kind == "pandas":
            return backends.frame_result(m.transform(inputs.to_pandas(t)))
        return backends.polars_result(m.transform(inputs.to_polars(t)))
    except BaseException as e:
        if isinstance(e, (KeyboardInterrupt, SystemExit)):
            raise
        return backends._exc(e)


def as_table(res, types_hint):
    """result tuple -> table dict (so that it can be fed to the next transform)"""
    cols = res[1]
    types = {}
    for j, c in enumerate(cols):
        vals = [r[j] for r in res[2] if r[j] is not None]
        if c in types_hint:
            types[c] = types_hint[c]
        elif vals and all(isinstance(v, str) for v in vals):
            types[c] = "str"
        else:
            types[c] = "float" if any(isinstance(v, float) and not float(v).is_integer() for v in vals) else "int"
    rows = [tuple((int(v) if (types[c] == "int" and v is not None) else v) for c, v in zip(cols, r)) for r in res[2]]
    return inputs.mk(cols, types, rows)


def ref_blocks(s, t):
    r = R("sql")
    cols = t["columns"]
    rows = [dict(zip(cols, x)) for x in t["rows"]]
    c2, out = r.rowrecs_to_blocks(s, cols, rows)
    return ("ok", c2, [tuple(o[c] for c in c2) for o in out])


def block_variants(bt, s):
    """the same block table with rows and columns re-ordered"""
    rows = list(bt["rows"])
    cols = list(bt["columns"])
    out = []
    if len(rows) > 1:
        out.append(("rows reversed", dict(bt, rows=list(reversed(rows)))))
        ck = [cols.index(c) for c in s["control_table_keys"]]
        rk = [cols.index(c) for c in s["record_keys"]]
        # sorted by block key, records ascending in the first block and descending in the others
        byblock = {}
        for r in rows:
            byblock.setdefault(tuple(r[j] for j in ck), []).append(r)
        arranged = []
        for i, (k, rs) in enumerate(sorted(byblock.items(), key=repr)):
            rs = sorted(rs, key=lambda r: repr(tuple(r[j] for j in rk)), reverse=(i % 2 == 1))
            arranged.extend(rs)
        out.append(("records in a different order in different blocks", dict(bt, rows=arranged)))
    perm = list(reversed(range(len(cols))))
    pc = [cols[j] for j in perm]
    out.append(("columns reversed", {"columns": pc, "types": dict(bt["types"]), "rows": [tuple(r[j] for j in perm) for r in rows]}))
    if len(rows) > 1:
        out.append(("columns reversed, rows reversed", {"columns": pc, "types": dict(bt["types"]), "rows": [tuple(r[j] for j in perm) for r in reversed(rows)]}))
    return out


def block_types(s):
    ty = {c: "str" for c in s["record_keys"]}
    for c in s["control"]:
        ty[c] = "str" if c in s["control_table_keys"] else "int"
    return ty


def row_types(s):
    ty = {c: "str" for c in s["record_keys"]}
    for c in spec_cells(s):
        ty[c] = "int"
    return ty


def work(specs, tier, open_ids):
    part = core.Part(open_ids)
    max_records = 2 if tier == "quick" else 3
    for s in specs:
        try:
            to_blocks = mk_map(None, s)
            to_rows = mk_map(s, None)
        except Exception as e:
            part.violation({"spec": s, "error": repr(e)[:200]}, f"a strict record specification of the family is rejected: {type(e).__name__}: {e}")
            continue
        part.count("layouts")
        inv1 = to_blocks.inverse()
        inv2 = to_rows.inverse()
        for t in row_tables(s, max_records):
            part.count("tables")
            case = {"spec": s, "rows": t}
            res = {}
            for kind in ("pandas", "polars"):
                b = transform(to_blocks, t, kind)
                part.count("traces_validated_against_impl")
                res[kind] = b
                if b[0] != "ok":
                    part.violation(dict(case, backend=kind, error=compare.brief(b)), f"{kind}: rows -> blocks raises on a valid layout and table: {b[1]}: {b[2][:100]}")
                    continue
                ref = ref_blocks(s, t)
                part.outcome((kind, len(b[2])))
                if not compare.EQ(b, ref):
                    part.violation(dict(case, backend=kind, got=compare.brief(b, 12), reference=compare.brief(ref, 12)), f"{kind}: rows -> blocks differs from the reference un-pivot")
                    continue
                part.count("reference_agree:" + kind)
                # rows -> blocks -> rows through inverse()
                bt = as_table(b, block_types(s))
                back = transform(inv1, bt, kind)
                part.count("traces_validated_against_impl")
                want = ("ok", t["columns"], t["rows"])
                if back[0] != "ok" or not compare.EQ(back, want):
                    part.violation(dict(case, backend=kind, blocks=compare.brief(b, 12), back=compare.brief(back, 12)), f"{kind}: inverse() does not undo rows -> blocks")
                    continue
                part.count("inverse_round_trips")
                # blocks -> rows -> blocks, starting from the block form
                r2 = transform(to_rows, bt, kind)
                part.count("traces_validated_against_impl")
                if r2[0] != "ok" or not compare.EQ(r2, want):
                    part.violation(dict(case, backend=kind, blocks=compare.brief(b, 12), rows_back=compare.brief(r2, 12)), f"{kind}: blocks -> rows does not return the row records the blocks were made from")
                    continue
                # the same blocks with their rows and columns in other orders (a block table is a set of
                # rows; records need not appear in the same relative order in every block)
                bad_variant = None
                for vname, bv in block_variants(bt, s):
                    rv = transform(to_rows, bv, kind)
                    part.count("traces_validated_against_impl")
                    part.count("block_order_variants")
                    if rv[0] != "ok" or not compare.EQ(rv, want):
                        bad_variant = (vname, bv, rv)
                        break
                if bad_variant is not None:
                    part.violation(dict(case, backend=kind, variant=bad_variant[0], blocks=bad_variant[1], rows_back=compare.brief(bad_variant[2], 12)), f"{kind}: blocks -> rows depends on the row / column order of the block table ({bad_variant[0]})")
                    continue
                b2 = transform(inv2, as_table(r2, row_types(s)), kind)
                part.count("traces_validated_against_impl")
                if b2[0] != "ok" or not compare.EQ(b2, b):
                    part.violation(dict(case, backend=kind, blocks=compare.brief(b, 12), blocks_back=compare.brief(b2, 12)), f"{kind}: inverse() does not undo blocks -> rows")
                    continue
                part.count("inverse_round_trips")
            if res["pandas"][0] == "ok" and res["polars"][0] == "ok" and not compare.EQ(res["pandas"], res["polars"]):
                part.violation(dict(case, pandas=compare.brief(res["pandas"], 12), polars=compare.brief(res["polars"], 12)), "Pandas and Polars disagree on a record transform")
        part.sample({"control": s["control"], "record_keys": s["record_keys"], "tables": len(row_tables(s, max_records))}, limit=1)
    return part.dump()


def rename_cells(s, suffix="_n"):
    """the same block layout with every cell (row-record column) renamed"""
    ctk = s["control_table_keys"]
    return {"control": {k: (list(v) if k in ctk else [x + suffix for x in v]) for k, v in s["control"].items()}, "record_keys": list(s["record_keys"]), "control_table_keys": list(ctk)}


def compositions(s1, s2):
    """all composable (a then b) shapes over two specifications with equal record keys and cell names;
    a map is (blocks_in, blocks_out) with None for the row form"""
    return [
        ("blocks->rows ; rows->blocks", (s1, None), (None, s2)),
        ("rows->blocks ; blocks->rows (inverse)", (None, s1), (s1, None)),
        ("rows->blocks ; blocks->rows (renaming cells)", (None, s1), (rename_cells(s1), None)),
        ("rows->blocks ; blocks->blocks", (None, s1), (s1, s2)),
        ("blocks->blocks ; blocks->rows", (s1, s2), (s2, None)),
        ("blocks->blocks ; blocks->blocks", (s1, s2), (s2, s1)),
        ("blocks->rows ; rows->blocks (renamed cells)", (s1, None), (None, s2)),
    ][:6]


def compose_work(pairs, tier, open_ids):
    """pairs: (spec1, spec2) with equal record keys and equal cell sets"""
    part = core.Part(open_ids)
    max_records = 1 if tier == "quick" else 2
    for s1, s2 in pairs:
        for shape, (a_in, a_out), (b_in, b_out) in compositions(s1, s2):
            a = mk_map(a_in, a_out)
            b = mk_map(b_in, b_out)
            case0 = {"shape": shape, "spec_a": [a_in, a_out], "spec_b": [b_in, b_out]}
            forms = {}
            refused = False
            for fname, f in (("rshift", lambda: a >> b), ("compose", lambda: b.compose(a))):
                try:
                    forms[fname] = f()
                except ValueError as e:
                    if "renaming" in shape and "only renames columns" in str(e):
                        # a pure column renaming is not representable as a record map: refusing is not a wrong result
                        part.count("compositions_refused_pure_renaming")
                        refused = True
                    else:
                        part.violation(dict(case0, form=fname, error=repr(e)[:200]), f"{fname} raises for two composable maps ({shape}): {type(e).__name__}: {e}")
                except Exception as e:
                    part.violation(dict(case0, form=fname, error=repr(e)[:200]), f"{fname} raises for two composable maps ({shape}): {type(e).__name__}: {e}")
            part.count("composed_pairs")
            # inputs of a: row tables over its cells, or their block form
            src = a_out if a_in is None else a_in
            for t in row_tables(src, max_records):
                if a_in is None:
                    xt = t
                else:
                    x = transform(mk_map(None, a_in), t, "pandas")
                    if x[0] != "ok":
                        continue
                    xt = as_table(x, block_types(a_in))
                step1 = transform(a, xt, "pandas")
                if step1[0] != "ok":
                    continue
                mid_types = row_types(a_in) if a_out is None else block_types(a_out)
                seq = transform(b, as_table(step1, mid_types), "pandas")
                part.count("traces_validated_against_impl")
                for fname, f in forms.items():
                    if f is None:
                        got = ("ok", xt["columns"], xt["rows"])
                    else:
                        got = transform(f, xt, "pandas")
                    part.count("compositions_checked")
                    part.outcome((shape, fname, got[0], len(got[2]) if got[0] == "ok" else -1))
                    if seq[0] != "ok" or got[0] != "ok" or not compare.EQ(got, seq):
                        part.violation(
                            dict(case0, form=fname, input=xt, sequential=compare.brief(seq, 12), composed=(compare.brief(got, 12) if f is not None else "None (identity)")),
                            f"{fname}: the composed record map differs from applying the two maps one after the other ({shape})",
                        )
                        break
    return part.dump()


def run(tier):
    run = core.Run(PROP, tier)
    L = layouts(tier)
    for p in core.pmap(work, [([s], tier, list(run.open_findings)) for s in core.rotate(L, run.seed)]):
        run.merge(p)
    # composable pairs: same record keys, same set of cell names
    pairs = []
    for s1, s2 in itertools.product(L, L):
        if s1["record_keys"] == s2["record_keys"] and sorted(spec_cells(s1)) == sorted(spec_cells(s2)):
            pairs.append((s1, s2))
    for p in core.pmap(compose_work, [(c, tier, list(run.open_findings)) for c in core.chunks(core.rotate(pairs, run.seed), 8)]):
        run.merge(p)
    run.set("states", len(L) + len(pairs))
    run.set("transitions", run.cov.get("tables", 0) + run.cov.get("compositions_checked", 0))
    run.set("evaluations", run.cov.get("traces_validated_against_impl", 0))
    run.assumptions += [
        "record specifications: strict, 1-2 control-table key columns, 2-3 block rows, 1-2 value columns, record keys [], [g] or [g, h], cell names distinct; data: complete blocks, <= 2 (3) records, cell values following the patterns all-null / constant / all-distinct / one-null",
        "row order of a transform's result is not compared",
        "composable pairs over two specifications with the same record keys and cell names, in every shape: blocks->rows;rows->blocks, rows->blocks;blocks->rows (inverse and cell-renaming), rows->blocks;blocks->blocks, blocks->blocks;blocks->rows, blocks->blocks;blocks->blocks",
        "a composite that only renames columns is not representable as a record map; a ValueError saying so is accepted and counted",
    ]
    return run.finish(
        exhaustive=True,
        rule=f"{len(L)} record specifications x all record-keyed tables with <= {2 if tier == 'quick' else 3} records over 4 cell-value patterns, both directions, Pandas and Polars; {len(pairs)} pairs of specifications x 6 composition shapes x tables with <= {1 if tier == 'quick' else 2} records",
    )


def replay(doc):
    c = doc["case"]
    part = core.Part([])
    if "spec" in c:
        d = work([c["spec"]], "thorough", [])
    else:
        sa, sb = c["spec_a"], c["spec_b"]
        s1 = sa[0] or sa[1]
        s2 = sb[1] or sb[0]
        d = compose_work([(s1, s2)], "thorough", [])
    for v in d["violations"][:5]:
        print(v["what"])
    return 1 if d["violations"] else 0
