"""
C07 - pipeline composition equals sequential application and is associative.

A-set: every pipeline a reachable in <= 1 (thorough 2) builder calls over a composition slice
(one entry per operator kind).  For every a, B-set: every pipeline b reachable in <= 2 calls
over the same slice *from a table description holding a's output columns*.  Every (a, b) is
composed in four ways (a >> b, DataOpArrow composition, replace_leaves, eval with a map of
pipelines); each composition must be accepted, and on every input X its result must equal
b evaluated on the materialised result of a.  Triples check associativity; arrows' dom/cod
are compared with the composed pipeline's columns.
"""

from mc import backends, compare, core, diff, explorer, inputs, menus
from mc import hist as H
from mc.hist import C, V, O, U, M, F
from mc.refmodel import R, Ambiguous, Unspecified

PROP = "C07"


def comp_slice(cols, roles, depth, hist):
    """one entry per operator kind (two for those with a simplification shortcut)"""
    K, N = menus._pick(cols, roles)
    A = N[0] if N else None
    B = N[1] if len(N) > 1 else None
    z = menus._new(cols)
    items = []
    if A:
        items.append({"op": "extend", "ops": {z: O("+", C(A), V(1))}})
        items.append({"op": "extend", "ops": {A: O("*", C(A), V(2))}})
        items.append({"op": "select_rows", "expr": O(">", C(A), V(1))})
        items.append({"op": "order_rows", "columns": [A], "reverse": [], "limit": None})
        items.append({"op": "order_rows", "columns": [A], "reverse": [A], "limit": 1})
        items.append({"op": "project", "ops": {"s": M("sum", C(A))}, "group_by": []})
        nn = menus._new(cols, A + "r")
        items.append({"op": "rename_columns", "map": {nn: A}})
        if len(cols) >= 2:
            items.append({"op": "map_columns", "map": {A: nn, cols[-1] if cols[-1] != A else cols[0]: None}})
            items.append({"op": "drop_columns", "columns": [cols[-1]]})
            items.append({"op": "select_columns", "columns": [cols[-1], cols[0]]})
        if B:
            items.append({"op": "rename_columns", "map": {A: B, B: A}})
        if K:
            items.append({"op": "extend", "ops": {z: M("sum", C(A))}, "partition_by": [K[0]]})
            items.append({"op": "project", "ops": {"s": M("max", C(A))}, "group_by": [K[0]]})
        items.append({"op": "extend", "ops": {z: F("_row_number")}, "partition_by": 1, "order_by": [A]})
        # every option of a step set to a non-default value: a re-dispatch that forgets one shows
        if K:
            items.append({"op": "extend", "ops": {z: F("_row_number")}, "partition_by": [K[0]], "order_by": [A], "reverse": [A]})
            items.append({"op": "extend", "ops": {z: M("cumsum", C(A))}, "partition_by": [K[0]], "order_by": [A], "reverse": [A]})
    if K and K[0] == "g":
        items.append({"op": "natural_join", "b": menus.E_HIST, "on": ["g"], "jointype": "LEFT"})
        items.append({"op": "natural_join", "b": menus.E4_HIST, "on": [["g", "k"]], "jointype": "RIGHT"})
    if depth >= 1:
        items.append({"op": "concat_rows", "b": {"prefix": 0}, "id_column": "src"} if False else {"op": "concat_rows", "b": {"prefix": depth}, "id_column": "src"})
        items.append({"op": "concat_rows", "b": {"prefix": depth}, "id_column": "which", "a_name": "left", "b_name": "right"})
    items += menus.cdata_items(cols, roles)
    return items


def compose_all(a_ops, b_ops, key):
    """-> {form: composed pipeline or exception}"""
    from data_algebra.arrow import DataOpArrow

    out = {}
    multi = len(b_ops.get_tables()) > 1

    def attempt(name, fn):
        try:
            out[name] = fn()
        except BaseException as e:
            if isinstance(e, (KeyboardInterrupt, SystemExit)):
                raise
            out[name] = e

    attempt("replace_leaves", lambda: b_ops.replace_leaves({key: a_ops}))
    attempt("eval_map", lambda: b_ops.eval({key: a_ops} if not multi else dict({key: a_ops}, **{k: v for k, v in b_ops.get_tables().items() if k != key})))
    if not multi:
        attempt("rshift", lambda: a_ops >> b_ops)
    attempt("arrow", lambda: (DataOpArrow(a_ops, free_table_key=key) >> DataOpArrow(b_ops, free_table_key=key)).pipeline)
    return out


def seq_eval(a_ops, b_ops, key, frames_a, frames_all):
    """b evaluated on the materialised result of a"""
    mid = a_ops.eval(frames_a)
    fm = dict(frames_all)
    fm[key] = mid
    need = list(b_ops.get_tables().keys())
    return backends.run_pandas_frames(b_ops, {k: fm[k] for k in need})


def ambiguous(comp_hist, data):
    try:
        R("pandas").eval(comp_hist, data)
    except Ambiguous:
        return True
    except Exception:
        return False
    return False


def b_states(a_cols, a_roles, depth):
    ex = explorer.Explorer(comp_slice, table="d", columns=a_cols, roles=a_roles)
    return ex.run(depth), ex


def work(a_hist, b_depth, triple_depth, open_ids, part_i=0, part_n=1):
    part = core.Part(open_ids)
    a_ops = H.build(a_hist)
    a_cols, a_roles = menus.result_roles(a_hist)
    a_cols = list(a_ops.column_names)
    a_roles = {c: a_roles.get(c, "n") for c in a_cols}
    a_tabs = H.hist_tables(a_hist)
    bs, ex = b_states(a_cols, a_roles, b_depth)
    if part_i == 0:
        part.count("b_states", len(bs))
    from data_algebra.arrow import DataOpArrow

    for bst in bs[part_i::part_n]:
        if not bst.hist["steps"]:
            continue
        b_hist = bst.hist
        b_ops = bst.ops
        b_tabs = H.hist_tables(b_hist)
        comp_hist = {"table": a_hist["table"], "steps": a_hist["steps"] + b_hist["steps"]}
        # prefix references inside b are relative to b: shift them for the composed history (used by R only)
        shifted = []
        for st in b_hist["steps"]:
            if isinstance(st.get("b"), dict) and "prefix" in st["b"]:
                st = dict(st, b={"prefix": st["b"]["prefix"] + len(a_hist["steps"])})
            shifted.append(st)
        comp_hist["steps"] = a_hist["steps"] + shifted
        part.count("pairs")
        comps = compose_all(a_ops, b_ops, "d")
        case_base = {"a": a_hist, "b": b_hist}
        good = {}
        for form, c in comps.items():
            part.outcome((form, isinstance(c, BaseException)))
            if isinstance(c, BaseException):
                part.violation(dict(case_base, form=form, error=type(c).__name__ + ": " + str(c)[:200]), f"composition {form} of two boundary-matching pipelines raises {type(c).__name__}: a = {H.short(a_hist)} ; b = {H.short(b_hist)}")
            else:
                good[form] = c
        if not good:
            continue
        # dom / cod of the composed arrow
        for form, c in good.items():
            try:
                arr = DataOpArrow(c, free_table_key="d")
                dom_cols = set(arr.dom().pipeline.column_names)
                cod_cols = set(arr.cod().pipeline.column_names)
                if dom_cols != set(H.TABLES["d"]) or cod_cols != set(c.column_names) or set(c.column_names) != set(b_ops.column_names):
                    part.violation(dict(case_base, form=form, dom=sorted(dom_cols), cod=sorted(cod_cols), composed_columns=list(c.column_names)), f"dom/cod of the composed arrow do not describe its input/output columns: a = {H.short(a_hist)} ; b = {H.short(b_hist)}")
            except Exception as e:
                part.violation(dict(case_base, form=form, error=repr(e)[:200]), f"dom/cod of the composed pipeline raise: a = {H.short(a_hist)} ; b = {H.short(b_hist)}")
        # all forms should agree structurally with replace_leaves; evaluate distinct structures only
        canon_of = {form: H.canon(c) for form, c in good.items()}
        distinct = {}
        for form, cn in canon_of.items():
            distinct.setdefault(cn, form)
        need = sorted(set(a_tabs) | set(b_tabs) - {"d"} | {"d"})
        for data in inputs.data_maps(need, 2, 1, inputs.D_ROWS_Q, inputs.E_ROWS_Q):
            part.count("traces_validated_against_impl")
            if ambiguous(comp_hist, data):
                part.count("skipped_ambiguous_order")
                continue
            frames = {k: inputs.to_pandas(t) for k, t in data.items()}
            try:
                r_seq = seq_eval(a_ops, b_ops, "d", {k: frames[k] for k in a_tabs}, frames)
            except Exception as e:
                r_seq = ("raise", type(e).__name__, str(e)[:200])
            for cn, form in distinct.items():
                c = good[form]
                r_c = backends.run_pandas_frames(c, {k: frames[k] for k in c.get_tables().keys()})
                if r_c[0] == "raise" and r_seq[0] == "raise":
                    part.count("both_raise_at_evaluation")
                    continue
                if diff.results_equal(comp_hist, r_c, r_seq):
                    part.count("agree")
                    continue
                part.violation(
                    dict(case_base, form=form, data=data, composed=compare.brief(r_c), sequential=compare.brief(r_seq), composed_pipeline=c.to_python(pretty=False)),
                    f"composition ({form}) differs from running b on the result of a: a = {H.short(a_hist)} ; b = {H.short(b_hist)}",
                )
                break
            else:
                continue
            break
        # the same composition with a living on a differently named table: the composite must read that table
        if a_tabs == ["d"] and len(a_hist["steps"]) <= 1 and set(b_ops.get_tables().keys()) == {"d"}:
            a2_hist = dict(a_hist, table="src", columns=list(H.TABLES["d"]))
            try:
                a2_ops = H.build(a2_hist)
                forms2 = {"rshift": (lambda: a2_ops >> b_ops), "replace_leaves": (lambda: b_ops.replace_leaves({"d": a2_ops}))}
                full = inputs.mk(["g", "x", "y"], inputs.D_TYPES, inputs.D_ROWS_Q)
                fr = inputs.to_pandas(full)
                try:
                    r_seq2 = seq_eval(a_ops, b_ops, "d", {"d": fr}, {"d": fr})
                except Exception as e:
                    r_seq2 = ("raise", type(e).__name__, str(e)[:200])  # the input is not valid for a (e.g. not keyed)
                for form2, f2 in forms2.items():
                    part.count("renamed_leaf_compositions")
                    c2 = f2()
                    tabs2 = set(c2.get_tables().keys())
                    r_c2 = backends.run_pandas_frames(c2, {"src": inputs.to_pandas(full)}) if tabs2 == {"src"} else ("raise", "wrong tables", str(sorted(tabs2)))
                    same = (r_c2[0] == "raise" and r_seq2[0] == "raise" and tabs2 == {"src"}) or diff.results_equal(comp_hist, r_c2, r_seq2)
                    if ambiguous(comp_hist, {"d": full}):
                        same = same or tabs2 == {"src"}
                    if not same:
                        part.violation(
                            dict(case_base, form=form2 + " (a over table 'src')", tables_of_composite=sorted(tabs2), composed=compare.brief(r_c2), sequential=compare.brief(r_seq2)),
                            f"composition ({form2}) with a living on a differently named table does not read that table / differs from b on the result of a: a = {H.short(a_hist)} ; b = {H.short(b_hist)}",
                        )
                        break
            except Exception as e:
                part.violation(dict(case_base, form="renamed leaf", error=repr(e)[:200]), f"composition with a over a differently named table raises {type(e).__name__}: a = {H.short(a_hist)} ; b = {H.short(b_hist)}")
        part.sample({"a": H.short(a_hist), "b": H.short(b_hist), "forms": sorted(good)}, limit=1)
        # ---- associativity: (a >> b) >> c  vs  a >> (b >> c), c over b's output columns
        if triple_depth and len(b_hist["steps"]) <= 1 and len(b_tabs) == 1:
            b_cols = list(b_ops.column_names)
            b_roles0 = {c: bst.roles.get(c, "n") for c in b_cols}
            cs, _ = b_states(b_cols, b_roles0, triple_depth)
            ab = good.get("replace_leaves")
            if ab is None:
                continue
            for cst in cs:
                if not cst.hist["steps"] or len(cst.ops.get_tables()) > 1:
                    continue
                c_ops = cst.ops
                part.count("triples")
                try:
                    left = c_ops.replace_leaves({"d": ab})
                    bc = c_ops.replace_leaves({"d": b_ops})
                    right = bc.replace_leaves({"d": a_ops})
                    left2 = (a_ops >> b_ops) >> c_ops
                    right2 = a_ops >> (b_ops >> c_ops)
                except Exception as e:
                    part.violation(dict(case_base, c=cst.hist, error=repr(e)[:200]), f"composition of a triple raises {type(e).__name__}: a = {H.short(a_hist)} ; b = {H.short(b_hist)} ; c = {H.short(cst.hist)}")
                    continue
                cl = H.canon(left)
                if all(H.canon(o) == cl for o in (right, left2, right2)):
                    part.count("triples_structurally_identical")
                    continue
                # not identical: results must agree on every input
                for data in inputs.data_maps(a_tabs, 2, 1, inputs.D_ROWS_Q, inputs.E_ROWS_Q):
                    frames = {k: inputs.to_pandas(t) for k, t in data.items()}
                    rl = backends.run_pandas_frames(left, frames)
                    bad = None
                    for nm, o in (("a >> (b >> c) by replace_leaves", right), ("(a >> b) >> c", left2), ("a >> (b >> c)", right2)):
                        ro = backends.run_pandas_frames(o, frames)
                        if not (compare.same_outcome(rl, ro)):
                            bad = (nm, ro)
                            break
                    if bad:
                        hist3 = {"table": "d", "steps": a_hist["steps"] + b_hist["steps"] + cst.hist["steps"]}
                        if ambiguous(hist3, data):
                            part.count("skipped_ambiguous_order")
                            continue
                        part.violation(dict(case_base, c=cst.hist, data=data, left=compare.brief(rl), other=compare.brief(bad[1]), which=bad[0]), f"composition is not associative: a = {H.short(a_hist)} ; b = {H.short(b_hist)} ; c = {H.short(cst.hist)}")
                        break
    return part.dump()


def run(tier):
    run = core.Run(PROP, tier)
    a_depth = 1 if tier == "quick" else 2
    b_depth = 2
    triple_depth = 1
    ex = explorer.Explorer(comp_slice)
    a_states = ex.run(a_depth)
    a_hists = [s.hist for s in a_states]
    a_hists = core.rotate(a_hists, run.seed)
    PARTS = 8
    for p in core.pmap(work, [(h, b_depth, triple_depth, list(run.open_findings), i, PARTS) for h in a_hists for i in range(PARTS)]):
        run.merge(p)
    run.set("a_states", len(a_hists))
    run.set("states", len(a_hists) + run.cov.get("b_states", 0))
    run.set("transitions", run.cov.get("pairs", 0) + run.cov.get("triples", 0))
    run.set("evaluations", run.cov.get("traces_validated_against_impl", 0) + run.cov.get("triples", 0))
    run.assumptions += [
        "b is explored from a table description that has exactly a's output columns, so every pair is boundary-matching by construction",
        "a >> b is only attempted for single-table b (act_on needs the incoming pipeline's key otherwise); multi-table b is composed by replace_leaves, eval with a map and arrows with an explicit free table",
        "inputs whose answer depends on row order (ties under a limit / in a window order) are skipped and counted",
    ]
    return run.finish(
        exhaustive=True,
        rule=f"all a at depth <= {a_depth} over the composition slice (one entry per operator kind: extend new/overwrite, partitioned and ordered windows, project, select_rows, order_rows with and without limit, select/drop/rename/swap/map-with-deletion, join, concat with itself, record maps) x all b at depth <= {b_depth} from a's output columns x 4 composition forms x all multisets of <= 2 rows; triples (a, b of one step, c of one step) for associativity",
    )


def replay(doc):
    c = doc["case"]
    d = work(c["a"], 2, 0, [f["id"] for f in core.load_findings() if f["status"] == "open"])
    bad = [v for v in d["violations"] if v["case"].get("b") == c["b"]]
    for v in bad:
        print(v["what"])
    return 1 if bad else 0
