"""
C06 - builder simplifications never change what a pipeline means.

Every *transition* s --step--> s' of the explorer graph (core menu + simplification slice):
  meaning:  for every input X, eval(s', X) must equal eval(step applied to a fresh table
            description holding s's columns, on the materialised Pandas result eval(s, X));
  verdict:  s.step(...) raises  <=>  fresh_table.step(...) raises.
Pandas is the executor on both sides, so executor-specific deviations cancel.
"""

from mc import backends, compare, core, diff, explorer, inputs, menus
from mc import hist as H
from mc.hist import C, V, O, U, M, F
from mc.refmodel import R, Ambiguous, Unspecified

PROP = "C06"
FRESH = "t0"


def simplification_items(cols, roles, depth, hist):
    """extra entries around the three simplifications: extend merging, select/drop collapsing, order_rows elimination"""
    K, N = menus._pick(cols, roles)
    items = []
    A = N[0] if N else None
    B = N[1] if len(N) > 1 else None
    if A and B:
        z = menus._new(cols)
        # common target with an earlier extend + a second assignment reading the other numeric column
        for existing in [c for c in cols if c.startswith("z")]:
            items.append({"op": "extend", "ops": {existing: O("+", C(A), V(2)), z: O("+", C(B), V(1))}})
            items.append({"op": "extend", "ops": {existing: O("+", C(existing), V(1))}})
            items.append({"op": "extend", "ops": {z: O("+", C(existing), C(A))}})
        items.append({"op": "extend", "ops": {A: O("+", C(B), V(1)), B: O("+", C(A), V(1))}})
    if K and A and B:
        # merge eligibility of consecutive windowed extends: same partition, order_by lists that are
        # permutations of each other, reverse sets that differ
        z = menus._new(cols)
        for ob, rv in (([A, B], []), ([B, A], []), ([A, B], [A]), ([A, B], [B]), ([A], [A])):
            items.append({"op": "extend", "ops": {z: F("_row_number")}, "partition_by": [K[0]], "order_by": ob, "reverse": rv})
        items.append({"op": "extend", "ops": {z: M("cumsum", C(B))}, "partition_by": [K[0]], "order_by": [A], "reverse": [A]})
    # re-selecting columns an intermediate select/drop removed
    orig = list(H.TABLES["d"])
    gone = [c for c in orig if c not in cols]
    for c in gone:
        items.append({"op": "select_columns", "columns": [c]})
        if cols:
            items.append({"op": "select_columns", "columns": [cols[0], c]})
        items.append({"op": "drop_columns", "columns": [c]})
        items.append({"op": "order_rows", "columns": [c]})
    if K and K[0] == "g":
        items.append({"op": "natural_join", "b": menus.E_HIST, "on": ["g"], "jointype": "LEFT", "check": True})
        items.append({"op": "natural_join", "b": menus.E3_HIST, "on": ["g"], "jointype": "LEFT", "check": True})
    return items


def source_menu(cols, roles, depth, hist):
    """source states for the thorough tier's second level: the step kinds the three simplifications are about"""
    items = menus.extend_items(cols, roles)
    win = menus.window_items(cols, roles)
    items += [w for w in win if menus._fn_of(w) in ("sum", "_size", "cumsum", "_row_number")][:8]
    ci = menus.column_items(cols, roles)
    items += [c for c in ci if c["op"] in ("drop_columns", "rename_columns")] + [c for c in ci if c["op"] == "select_columns"][:5]
    items += [o for o in menus.order_items(cols, roles) if o["limit"] in (None, 1)][:6]
    items += simplification_items(cols, roles, depth, hist)
    return items


def c06_menu(cols, roles, depth, hist):
    return menus.core_menu(cols, roles, depth, hist) + simplification_items(cols, roles, depth, hist)


def fresh_apply(s_cols, step, prefixes):
    """the same step applied to a brand new table description with s's columns"""
    td = H.table_description(FRESH, list(s_cols))
    return H.apply_step(td, step, prefixes=prefixes)


def res_to_frame(res, src_frame_cols=None):
    import pandas

    cols = res[1]
    return pandas.DataFrame({c: [r[j] for r in res[2]] for j, c in enumerate(cols)}, columns=cols)


def is_ambiguous(step, res_s):
    """ties that make the step's answer depend on the incoming row order"""
    if step["op"] == "order_rows" or (step["op"] == "extend" and step.get("order_by")):
        cols = res_s[1]
        rows = [dict(zip(cols, t)) for t in res_s[2]]
        try:
            r = R("pandas")
            if step["op"] == "order_rows":
                r.s_order_rows(step, cols, rows, True)
            else:
                r.s_extend(step, cols, rows)
        except Ambiguous:
            return True
        except Unspecified:
            return False
    return False


def work(state_hists, open_ids, kd, menu_name, quick=False):
    """state_hists: list of source-state histories; all their outgoing transitions are checked here"""
    import pandas

    part = core.Part(open_ids)
    menu = c06_menu
    for hist in state_hists:
        s_ops, prefixes = H.build(hist, want_prefixes=True)
        cols, roles = menus.result_roles(hist)
        cols = list(s_ops.column_names)
        depth = len(hist["steps"])
        tabs = H.hist_tables(hist)
        steps = menu(cols, roles, depth, hist)
        pre_cache = {}
        for step in steps:
            part.count("transitions_checked")
            # ---- verdict equivalence
            try:
                s2 = H.apply_step(s_ops, step, prefixes=prefixes)
                acc_chain = True
            except Exception as e:
                acc_chain = False
                exc_chain = type(e).__name__
            try:
                f_ops = fresh_apply(cols, step, prefixes)
                acc_fresh = True
            except Exception as e:
                acc_fresh = False
                exc_fresh = type(e).__name__
            h2 = {"table": hist["table"], "steps": hist["steps"] + [step]}
            part.outcome((step["op"], acc_chain, acc_fresh))
            if acc_chain != acc_fresh:
                fid = None
                if step["op"] in ("select_columns",) and acc_chain and not acc_fresh:
                    fid = "builder.select_columns_resurrects_dropped_column"
                if fid and part.is_open(fid):
                    part.known(fid, example={"history": H.short(h2)})
                    continue
                part.violation(
                    {"history": h2, "chained": "accepted" if acc_chain else "rejected (" + exc_chain + ")", "step_on_materialised_result": "accepted" if acc_fresh else "rejected (" + exc_fresh + ")"},
                    f"the simplified pipeline {'accepts' if acc_chain else 'rejects'} a step that the unsimplified sequence {'accepts' if acc_fresh else 'rejects'}: {H.short(h2)}",
                )
                continue
            if not acc_chain:
                part.count("both_reject")
                continue
            # ---- meaning
            f_tabs = [t for t in H.hist_tables({"table": "d", "steps": [step]}) if t != "d" or True]
            need = set(tabs)
            b = step.get("b")
            if isinstance(b, dict) and "table" in b:
                need |= set(H.hist_tables(b))
            datas = inputs.data_maps(sorted(need), kd, 1, inputs.D_ROWS_Q, inputs.E_ROWS_Q)
            if quick:
                # the empty table, every single row, and the two-row tables made of two different rows
                datas = [dm for dm in datas if len(dm["d"]["rows"]) < 2 or dm["d"]["rows"][0] != dm["d"]["rows"][1]]
            if step.get("order_by") or any(st.get("order_by") for st in hist["steps"]):
                # window orders need null-free, tie-free rows whose two numeric columns sort differently
                datas = datas + [dm for dm in inputs.data_maps(sorted(need), kd, 1, inputs.D_ROWS_NN[:1] + inputs.D_ROWS_NN[2:], inputs.E_ROWS_Q) if len(dm["d"]["rows"]) > 0]
            for data in datas:
                part.count("traces_validated_against_impl")
                # the pre-state is evaluated once per input and shared by all its outgoing transitions
                ck = repr(sorted((k, t["rows"]) for k, t in data.items()))
                cached = pre_cache.get(ck)
                if cached is None:
                    frames = {k: inputs.to_pandas(t) for k, t in data.items()}
                    r_s = backends.run_pandas_frames(s_ops, {k: frames[k] for k in tabs})
                    try:
                        mat0 = s_ops.eval({k: frames[k] for k in tabs}) if r_s[0] == "ok" else None
                    except Exception:
                        mat0 = None
                    cached = (frames, r_s, mat0)
                    pre_cache[ck] = cached
                frames, r_s, mat0 = cached
                if r_s[0] != "ok" or mat0 is None:
                    part.count("pre_state_raises")
                    continue
                if is_ambiguous(step, r_s):
                    part.count("skipped_ambiguous_order")
                    continue
                r_chain = backends.run_pandas_frames(s2, {k: frames[k] for k in H.hist_tables(h2)})
                fm = dict(frames)
                # the materialised intermediate result, as evaluated by the library itself
                # a private copy: evaluation must not be able to disturb the shared materialised frame
                fm[FRESH] = mat0.copy()
                f_need = list(f_ops.get_tables().keys())
                r_seq = backends.run_pandas_frames(f_ops, {k: fm[k] for k in f_need})
                if r_chain[0] == "raise" and r_seq[0] == "raise":
                    part.count("both_raise_at_evaluation")
                    continue
                if diff.results_equal(h2, r_chain, r_seq):
                    part.count("agree")
                    continue
                part.violation(
                    {"history": h2, "data": data, "chained": compare.brief(r_chain), "step_on_materialised_result": compare.brief(r_seq), "pre_state_result": compare.brief(r_s)},
                    f"chaining differs from applying the step to the materialised result of the previous steps: {H.short(h2)}",
                )
                break
        part.sample({"state": H.short(hist), "outgoing": len(steps)}, limit=1)
    return part.dump()


def run(tier):
    run = core.Run(PROP, tier)
    src_depth = 1 if tier == "quick" else 2
    # quick tier: source states from the thinner first-step menu plus the simplification entries; every
    # source's outgoing transitions are taken from the full menu
    ex = explorer.Explorer((lambda c, r, d, h: menus.core_menu_q(c, r, d, h) + simplification_items(c, r, d, h)) if tier == "quick" else menus.core_menu)
    if tier == "quick":
        states = ex.run(src_depth)
        hists = [s.hist for s in states]
    else:
        # every depth <= 1 state of the core menu, plus the depth-2 states of the simplification source menu
        # (extends incl. windowed ones, select / drop / rename, limit-less and limited order_rows)
        states = ex.run(1)
        hists = [s.hist for s in states]
        ex2 = explorer.Explorer(source_menu)
        seen = {H.hist_key(h) for h in hists}
        for s2 in ex2.run(2):
            if H.hist_key(s2.hist) not in seen:
                hists.append(s2.hist)
    hists = core.rotate(hists, run.seed)
    kd = 2
    for p in core.pmap(work, [([h], list(run.open_findings), kd, "c06", tier == "quick") for h in hists]):
        run.merge(p)
    run.set("states", len(hists))
    run.set("transitions", run.cov.get("transitions_checked", 0))
    run.assumptions += [
        "'apply each step in turn to the materialised result of the previous one' is realised literally: the step is applied to a new TableDescription with the pre-state's columns and evaluated on the pre-state's materialised Pandas result",
        "cases where the step's answer depends on the incoming row order (ties under a limit or in a window order) are skipped and counted",
    ]
    return run.finish(
        exhaustive=True,
        rule=f"every outgoing transition (core menu + simplification entries: common-target extends, reads of replaced columns, swaps, re-selection/drop/order of columns an earlier select/drop removed, checked joins) of every state at depth <= {src_depth}"
        + (" (depth-2 sources: all two-step chains over the simplification source menu of extends, windows, select/drop/rename and order_rows)" if tier != "quick" else "")
        + f", each on {'the empty table, every single row and every pair of different rows' if tier == 'quick' else f'all multisets of <= {kd} rows'} over the 3-row alphabets (transitions involving an ordered window also on all multisets of <= {kd} rows of a null-free 3-row alphabet whose numeric columns sort differently)",
    )


def replay(doc):
    c = doc["case"]
    h = c["history"]
    src = {"table": h["table"], "steps": h["steps"][:-1]}
    step = h["steps"][-1]
    p = core.Part([f["id"] for f in core.load_findings() if f["status"] == "open"])
    # re-run all transitions of the source state and report the ones for this step
    d = work([src], list(p.open_ids), 2, "c06")
    bad = [v for v in d["violations"] if v["case"]["history"]["steps"][-1] == step]
    for v in bad:
        print(v["what"])
    return 1 if bad else 0
