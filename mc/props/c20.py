"""
C20 - data spaces behave like a keyed store of tables.

Explicit-state BFS over histories of insert / execute / remove on the real DataModelSpace
(Pandas; Polars in thorough) and DBSpace (SQLite), each rebuilt by replaying the history on a
fresh object, with a dict reference model in lock-step; after every event the outcome class,
keys(), every retrieve() and every describe() are compared.  States are merged on the model
state (key -> table content).
"""

from mc import backends, compare, core

PROP = "C20"

T = {
    "T1": (["x", "y"], [(1, "p"), (2, "q")]),
    "T2": (["x", "y"], [(5, "r")]),
}
KEYS = [None, "a", "b", "da_temp_1"]
READS = {"A": "a", "T": "da_temp_1"}


def events():
    ev = []
    for k in KEYS:
        for v in ("T1", "T2"):
            for ow in (True, False):
                ev.append(("insert", k, v, ow))
    for o in READS:
        for k in KEYS:
            for ow in (True, False):
                ev.append(("execute", o, k, ow))
    for k in ("a", "b", "da_temp_1"):
        ev.append(("remove", k))
    # a second reserved-looking name: two consecutive user keys sitting where the counter goes next
    ev.append(("insert", "da_temp_2", "T1", True))
    ev.append(("insert", "da_temp_2", "T2", False))
    ev.append(("insert", "da_temp_3", "T2", True))
    return ev


def mk_frame(kind, tname):
    cols, rows = T[tname]
    if kind == "polars":
        import polars as pl

        return pl.DataFrame({c: [r[j] for r in rows] for j, c in enumerate(cols)})
    import pandas

    return pandas.DataFrame({c: [r[j] for r in rows] for j, c in enumerate(cols)})


def mk_space(kind):
    if kind == "pandas":
        from data_algebra.data_model_space import DataModelSpace

        return DataModelSpace()
    if kind == "polars":
        from data_algebra.data_model_space import DataModelSpace
        import data_algebra.polars_model

        return DataModelSpace(data_algebra.polars_model.PolarsModel())
    from data_algebra.db_space import DBSpace

    return DBSpace()


def mk_ops(o):
    from data_algebra.data_ops import TableDescription

    return TableDescription(table_name=READS[o], column_names=["x", "y"]).extend({"x": "x + 1"})


def norm_frame(v):
    try:
        import polars as pl

        if isinstance(v, (pl.DataFrame, pl.LazyFrame)):
            return backends.polars_result(v)
    except Exception:
        pass
    return backends.frame_result(v)


def model_step(model, ev, auto_key):
    """Reference model.  Returns (outcome, new_model).  auto_key: the key the implementation chose
    for key=None (its name is not prescribed, only that it must be fresh)."""
    m = dict(model)
    if ev[0] == "insert":
        _, k, v, ow = ev
        if k is None:
            k = auto_key
        elif (k in m) and not ow:
            return "raise", model
        m[k] = (tuple(T[v][0]), tuple(sorted(T[v][1])))
        return "ok", m
    if ev[0] == "execute":
        _, o, k, ow = ev
        src = READS[o]
        if src not in m:
            return "raise", model
        if k is not None and (k in m) and not ow:
            return "raise", model
        if k is None:
            k = auto_key
        cols, rows = m[src]
        xi = cols.index("x")
        m[k] = (cols, tuple(sorted(tuple((v + 1 if j == xi else v) for j, v in enumerate(r)) for r in rows)))
        return "ok", m
    if ev[0] == "remove":
        _, k = ev
        if k not in m:
            return "raise", model
        del m[k]
        return "ok", m
    raise ValueError(ev)


def apply_real(space, kind, ev):
    """-> ("ok", returned table name) | ("raise", class)"""
    try:
        if ev[0] == "insert":
            _, k, v, ow = ev
            d = space.insert(key=k, value=mk_frame(kind, v), allow_overwrite=ow)
            return ("ok", d.table_name)
        if ev[0] == "execute":
            _, o, k, ow = ev
            d = space.execute(mk_ops(o), key=k, allow_overwrite=ow)
            return ("ok", d.table_name)
        if ev[0] == "remove":
            space.remove(ev[1])
            return ("ok", None)
    except BaseException as e:
        if isinstance(e, (KeyboardInterrupt, SystemExit)):
            raise
        return ("raise", type(e).__name__)
    raise ValueError(ev)


def observe(space):
    """-> {key: (cols, sorted rows)} plus describe columns"""
    obs = {}
    for k in sorted(space.keys()):
        r = norm_frame(space.retrieve(k))
        d = space.describe(k)
        obs[k] = (tuple(r[1]), tuple(sorted(r[2], key=repr)), tuple(d.column_names), d.table_name)
    return obs


def replay_history(kind, hist):
    """Replay on a fresh space with the model in lock-step. -> (violation text|None, final model, problems list)"""
    space = mk_space(kind)
    model = {}
    try:
        for i, ev in enumerate(hist):
            before_keys = set(model)
            got = apply_real(space, kind, ev)
            auto = None
            needs_auto = ev[0] in ("insert", "execute") and (ev[1] if ev[0] == "insert" else ev[2]) is None
            if needs_auto and got[0] == "ok":
                auto = got[1]
                if auto in before_keys:
                    return (f"step {i} {ev}: the automatically named entry '{auto}' replaced an existing entry", model)
            want, model2 = model_step(model, ev, auto)
            if needs_auto and want == "ok" and got[0] != "ok":
                return (f"step {i} {ev}: raised {got[1]} although the operation is valid", model)
            if want != got[0]:
                if want == "raise":
                    # the operation had to fail; it must at least leave the store unchanged - checked below
                    return (f"step {i} {ev}: expected to be rejected, but it succeeded", model)
                return (f"step {i} {ev}: raised {got[1]} although the operation is valid on the current contents", model)
            model = model2
            obs = observe(space)
            if set(obs) != set(model):
                return (f"step {i} {ev}: keys() = {sorted(obs)} but the successful operations so far give {sorted(model)}", model)
            for k, (cols, rows) in model.items():
                oc, orows, dcols, dname = obs[k]
                a = ("ok", list(oc), list(orows))
                b = ("ok", list(cols), list(rows))
                if not compare.EQ(a, b):
                    return (f"step {i} {ev}: retrieve('{k}') = {orows} cols {oc}, expected {rows} cols {cols}", model)
                if set(dcols) != set(cols) or dname != k:
                    return (f"step {i} {ev}: describe('{k}') = {dname}{dcols}, expected {k}{cols}", model)
    finally:
        try:
            space.close()
        except Exception:
            pass
    return (None, model)


def work(kind, hists):
    part = core.Part([])
    out = []
    for h in hists:
        v, model = replay_history(kind, h)
        part.count("histories:" + kind)
        part.count("traces_validated_against_impl")
        if v:
            part.violation({"space": kind, "history": h}, f"{kind}: {v}; history={h}")
            out.append(None)
        else:
            out.append(tuple(sorted(model.items())))
            part.outcome((kind, len(model), h[-1][0] if h else "init"))
    d = part.dump()
    d["models"] = out
    return d


def explore(run, kind, depth):
    evs = events()
    seen = {()}
    frontier = [[]]
    transitions = 0
    for d in range(depth):
        cand = [h + [e] for h in frontier for e in evs]
        transitions += len(cand)
        models = []
        for p in core.pmap(work, [(kind, c) for c in core.chunks(cand, 60)]):
            models.extend(p.pop("models"))
            run.merge(p)
        nxt = []
        for h, m in zip(cand, models):
            if m is None:
                continue  # stop at first divergence: do not extend a broken history
            # n_tmp (number of automatic names handed out) is hidden state the code keeps
            n_auto = sum(1 for e in h if (e[0] == "insert" and e[1] is None) or (e[0] == "execute" and e[2] is None))
            k = (m, n_auto)
            if k not in seen:
                seen.add(k)
                nxt.append(h)
        frontier = nxt
    return len(seen), transitions


def run(tier):
    run = core.Run(PROP, tier)
    depth = 3 if tier == "quick" else 4
    kinds = ["pandas", "sqlite"] + (["polars"] if tier != "quick" else [])
    states = 0
    transitions = 0
    for kind in kinds:
        s, t = explore(run, kind, depth)
        states += s
        transitions += t
        run.set("states:" + kind, s)
    run.set("states", states)
    run.set("transitions", transitions)
    run.sample({"space": "sqlite", "history": [["insert", "a", "T1", True], ["execute", "A", "a", True]], "expected": "a := a with x+1 (a pipeline overwriting the table it reads)"})
    run.sample({"space": "pandas", "history": [["insert", "da_temp_1", "T1", True], ["insert", None, "T2", True]], "expected": "two entries; the automatic key is fresh"})
    run.assumptions += [
        "the name of an automatic key is not prescribed; the model adopts whatever name the implementation returns and only requires it to be fresh",
        "which exception class a rejected operation raises is not compared",
        "histories are not extended past their first divergence",
    ]
    return run.finish(
        exhaustive=True,
        rule=f"all histories of length <= {depth} over {len(events())} events (insert x 4 keys incl. automatic and 'da_temp_1' x 2 values x allow_overwrite, plus inserts under 'da_temp_2' / 'da_temp_3'; execute x 2 pipelines (one reads 'a', one reads 'da_temp_1') x 4 target keys incl. the table read x allow_overwrite; remove x 3 keys) on {kinds}, merged on (model state, number of automatic names handed out)",
    )


def replay(doc):
    c = doc["case"]
    h = [tuple(e) for e in c["history"]]
    v, _ = replay_history(c["space"], h)
    print(c["space"], h, "->", v)
    return 1 if v else 0
