"""
C08 - results have exactly the columns the pipeline declares.

Every explored pipeline state x inputs (empty, one row, two rows) x every backend that
returns: set(result columns) == set(ops.column_names); the order too where the operators
define it (final select_columns, a bare table description).  No reference model involved.
"""

from mc import backends, compare, core, explorer, inputs, menus
from mc import hist as H
from mc.props import c01

PROP = "C08"

D2 = [("a", 1, 1.0), (None, 2, None)]
E2 = [("a", 10, None), (None, 30, 2.0)]


def tier_cfg(tier):
    if tier == "quick":
        return {"depth": 2, "kd": 2, "ke": 1, "slice_depth": 0}
    return {"depth": 2, "kd": 2, "ke": 2, "slice_depth": 2}


def column_slice(cols, roles, depth, hist):
    """steps that replace or drop every non-key column, swaps, deletions, overlapping joins, empty project, concat, cdata"""
    K, N = menus._pick(cols, roles)
    items = []
    ext = menus.extend_items(cols, roles)
    items += ext[:2] + ext[-5:]
    items += [w for w in menus.window_items(cols, roles)][:3]
    items += [p for p in menus.project_items(cols, roles) if len(p["ops"]) != 1][:4]
    items += menus.column_items(cols, roles)
    items += [o for o in menus.order_items(cols, roles) if o["limit"] in (None, 1)][:2]
    items += menus.join_items(cols, roles, depth, jointypes=("LEFT", "RIGHT", "FULL"), rights=[menus.E_HIST])
    items += menus.concat_items(cols, roles, depth)
    items += menus.cdata_items(cols, roles)
    return items


def column_order_request(hist):
    """(is the column order defined?, the order the history asks for or None = the declared one)"""
    steps = list(hist["steps"])
    while steps and steps[-1]["op"] in ("order_rows", "select_rows"):
        steps.pop()
    if not steps:
        return True, None
    if steps[-1]["op"] == "select_columns":
        return True, list(steps[-1]["columns"])
    return False, None


def order_request_key(hist):
    import json

    return json.dumps(column_order_request(hist))


def _check(part, hist, ops, data, bname, res, ordered, requested=None):
    if res[0] != "ok":
        part.count("raised:" + bname)
        return
    part.count("returned:" + bname)
    want = list(ops.column_names)
    if requested is not None and list(requested) != want and set(requested) == set(want):
        # the pipeline declares another order than the select_columns step asked for
        part.violation(
            {"history": hist, "data": data, "backend": bname, "declared": want, "requested": list(requested)},
            f"{bname}: the pipeline declares the columns in another order than its select_columns step asked for: {H.short(hist)} declared={want} requested={list(requested)}",
        )
        return
    got = list(res[1])
    part.outcome((bname, tuple(got) == tuple(want)))
    bad = None
    if set(got) != set(want) or len(got) != len(want):
        bad = "column set differs from the declared column_names"
    elif ordered and got != want:
        bad = "column order differs from the declared order after select_columns / table"
    if bad:
        part.violation(
            {"history": hist, "data": data, "backend": bname, "declared": want, "returned": got},
            f"{bname}: {bad}: {H.short(hist)} declared={want} returned={got}",
        )


def _with_extra(t):
    return {"columns": t["columns"] + ["undeclared_extra"], "types": dict(t["types"], undeclared_extra="int"), "rows": [tuple(r) + (9,) for r in t["rows"]]}


def work(hists, cfg, open_ids):
    part = core.Part(open_ids)
    pg = backends.pg_model()
    for hist in hists:
        ops = H.build(hist)
        part.count("states_evaluated")
        last = hist["steps"][-1]["op"] if hist["steps"] else "table"
        # the column order is defined by a select_columns (or the table) and inherited through steps that
        # only filter or sort rows
        ordered, requested = column_order_request(hist)
        g = backends.gen_sql(ops)
        gp = backends.gen_sql(ops, model=pg)
        tabs = H.hist_tables(hist)
        datas = inputs.data_maps(tabs, cfg["kd"], cfg["ke"], D2, E2)
        # the empty and the largest input once more with a column the table description does not declare (a frame /
        # database table may carry more columns than the description): it must never come back
        datas = datas + [{k: _with_extra(t) for k, t in dm.items()} for dm in (datas[0], datas[-1])]
        for data in datas:
            part.count("traces_validated_against_impl")
            _check(part, hist, ops, data, "pandas", backends.run_pandas(ops, data), ordered, requested)
            _check(part, hist, ops, data, "polars_eager", backends.run_polars(ops, data, lazy=False), ordered, requested)
            _check(part, hist, ops, data, "polars_lazy", backends.run_polars(ops, data, lazy=True), ordered, requested)
            _check(part, hist, ops, data, "sqlite", backends.run_sql(g[1], data) if g[0] == "ok" else g, ordered, requested)
            _check(part, hist, ops, data, "pgtext@sqlite", backends.run_sql(gp[1], data) if gp[0] == "ok" else gp, ordered, requested)
        part.sample({"history": H.short(hist), "declared": list(ops.column_names)}, limit=1)
    return part.dump()


def run(tier):
    cfg = tier_cfg(tier)
    run = core.Run(PROP, tier)
    ex = explorer.Explorer(menus.core_menu_q if tier == "quick" else menus.core_menu, key_extra=order_request_key)
    states = ex.run(cfg["depth"])
    hists = [s.hist for s in states]
    st = ex.stats()
    extra = {"core_states": st["states"]}
    if cfg["slice_depth"]:
        ex2 = explorer.Explorer(column_slice, key_extra=order_request_key)
        st2 = ex2.run(cfg["slice_depth"])
        seen = {s.key for s in states}
        add = [s.hist for s in st2 if s.key not in seen]
        hists += add
        extra.update({"slice_depth": cfg["slice_depth"], "slice_states": ex2.stats()["states"], "slice_new_states": len(add)})
        st["states"] += len(add)
        st["transitions"] += ex2.stats()["transitions"]
    hists = core.rotate(hists, run.seed)
    for p in core.pmap(work, [(c, cfg, list(run.open_findings)) for c in core.chunks(hists, 40)]):
        run.merge(p)
    run.set("states", st["states"])
    run.set("transitions", st["transitions"])
    run.assumptions += [
        "a backend that raises returns no table and is not judged here (counted as raised:<backend>)",
        "pgtext@sqlite = PostgreSQL-dialect SQL text executed by the SQLite engine; only column names are read from it",
    ]
    return run.finish(
        exhaustive=True,
        rule=f"all pipelines reachable in <= {cfg['depth']} builder calls over the core menu" + (" (quick tier: the first call from a thinner one-per-shape selection of the menu, every later call from the full menu)" if tier == "quick" else "")
        + (f" plus <= {cfg['slice_depth']} over the column slice" if cfg["slice_depth"] else "")
        + f" x all multisets of <= {cfg['kd']} rows over a 2-row alphabet of d (<= {cfg['ke']} of e), plus the empty and the largest input carrying an undeclared extra column, x 5 backends",
        extra=extra,
    )


def replay(doc):
    case = doc["case"]
    hist, data = case["history"], case["data"]
    ops = H.build(hist)
    print(H.short(hist), "declared", list(ops.column_names))
    part = core.Part([])
    last = hist["steps"][-1]["op"] if hist["steps"] else "table"
    ordered = last in ("select_columns", "table")
    for nm, res in (
        ("pandas", backends.run_pandas(ops, data)),
        ("polars_eager", backends.run_polars(ops, data)),
        ("polars_lazy", backends.run_polars(ops, data, lazy=True)),
        ("sqlite", backends.run_sqlite(ops, data)),
        ("pgtext@sqlite", backends.run_sqlite(ops, data, model=backends.pg_model())),
    ):
        print(nm, compare.brief(res))
        _check(part, hist, ops, data, nm, res, ordered)
    return 1 if part.violations else 0
