"""
C01 - SQLite SQL computes the same table as the Pandas executor.

Explicit-state BFS over the real builder (all step sequences up to a depth over the core
menu), every reachable pipeline x every small input table; oracle: Pandas vs SQLite
differential, the reference model R arbitrates disagreements (DESIGN 2.6).
"""

from mc import backends, compare, core, diff, explorer, inputs, menus
from mc import hist as H
from mc.hist import C, V, O, U, M, F

PROP = "C01"


def tier_cfg(tier):
    if tier == "quick":
        return {"depth": 2, "kd": 2, "ke": 1, "slice_depth": 0, "chain_depth": 3, "d_rows": inputs.D_ROWS_Q, "e_rows": inputs.E_ROWS_Q}
    return {"depth": 2, "kd": 3, "ke": 2, "slice_depth": 2, "chain_depth": 4, "d_rows": inputs.D_ROWS, "e_rows": inputs.E_ROWS}


def slice_menu(cols, roles, depth, hist):
    """SQL-translation slice for depth 3: pruning, extend merging, CTE sequencing."""
    K, N = menus._pick(cols, roles)
    items = []
    ext = menus.extend_items(cols, roles)
    items += ext[:3] + ext[-5:]
    win = menus.window_items(cols, roles)
    items += [w for w in win if w["ops"] and list(w["ops"].values())[0][1] in ("sum", "cumsum", "_row_number", "max")][:8]
    pr = menus.project_items(cols, roles)
    items += [p for p in pr if len(p["ops"]) != 1 or list(p["ops"].values())[0][1] in ("sum", "_size")]
    sr = menus.select_rows_items(cols, roles)
    items += sr[:2]
    ci = menus.column_items(cols, roles)
    items += [c for c in ci if c["op"] in ("drop_columns", "rename_columns") or (c["op"] == "select_columns" and len(c["columns"]) == 1)]
    items += [o for o in menus.order_items(cols, roles) if o["limit"] in (None, 1)][:4]
    items += menus.join_items(cols, roles, depth, jointypes=("LEFT", "FULL"), rights=[menus.E_HIST])
    items += menus.concat_items(cols, roles, depth)[:2]
    items += menus.cdata_items(cols, roles)
    return items


def chain_menu(cols, roles, depth, hist):
    """extend chains the builder cannot fuse but the SQL generator merges: plain / windowed / ordered-window
    extends that create, read and overwrite each other's columns, plus the column selections that prune them"""
    K, N = menus._pick(cols, roles)
    if not N:
        return []
    A = N[0]
    z = menus._new(cols)
    made = [c for c in cols if c.startswith("z")]
    pb = [K[0]] if K else 1
    items = [
        {"op": "extend", "ops": {z: O("+", C(A), V(1))}},
        {"op": "extend", "ops": {z: M("sum", C(A))}, "partition_by": pb},
        {"op": "extend", "ops": {z: F("_row_number")}, "partition_by": pb, "order_by": [A], "reverse": []},
        {"op": "extend", "ops": {A: O("+", C(A), V(1))}},
        # an order-reversing re-definition of the column the ordered windows sort by
        {"op": "extend", "ops": {A: U("-", C(A))}},
    ]
    if len(N) > 1:
        items.append({"op": "extend", "ops": {z: M("cumsum", C(N[1]))}, "partition_by": pb, "order_by": [A], "reverse": []})
    if made:
        last = made[-1]
        items.append({"op": "extend", "ops": {z: O("*", C(last), V(2))}})
        items.append({"op": "extend", "ops": {last: O("+", C(last), C(A))}})
        items.append({"op": "extend", "ops": {z: M("max", C(last))}, "partition_by": pb})
        if K:
            items.append({"op": "select_columns", "columns": [K[0], last]})
    return items


def prune_menu(cols, roles, depth, hist):
    """an aggregating / constant step, then a join or stacking, then a step that keeps only the other side's
    (or none of the first step's) columns: the SQL translation prunes with 'using' sets, the rows must survive"""
    K, N = menus._pick(cols, roles)
    if depth == 0:
        return [
            {"op": "project", "ops": {"s": M("sum", C("x"))}, "group_by": []},
            {"op": "project", "ops": {"s": M("sum", C("x"))}, "group_by": ["g"]},
            {"op": "extend", "ops": {"z": V(1)}},
            {"op": "select_rows", "expr": O(">", C("x"), V(1))},
        ]
    if depth == 1:
        items = [{"op": "natural_join", "b": menus.E_HIST, "on": [], "jointype": jt} for jt in ("CROSS", "LEFT", "INNER")]
        if "g" in cols:
            items += [{"op": "natural_join", "b": menus.E_HIST, "on": ["g"], "jointype": jt} for jt in ("LEFT", "RIGHT")]
        return items
    if depth == 2:
        own = [c for c in cols if c in ("w",)]
        items = [{"op": "select_columns", "columns": ["w"]}] if own else []
        items.append({"op": "project", "ops": {"n": F("_size")}, "group_by": []})
        items.append({"op": "extend", "ops": {c: V(0) for c in cols if c != "w"}} if len(cols) > 1 else {"op": "extend", "ops": {"q": V(0)}})
        return items
    return []


UNPIVOT2 = {
    "blocks_in": None,
    "blocks_out": {"control": {"k": ["r1", "r2"], "v1": ["x", "x2"], "v2": ["y", "y2"]}, "record_keys": ["g"], "control_table_keys": ["k"]},
}
PIVOT2 = {"blocks_in": UNPIVOT2["blocks_out"], "blocks_out": None}


def cdata_menu(cols, roles, depth, hist):
    """record conversions with two value columns, with the block table's columns re-ordered in between"""
    if depth == 0:
        return [{"op": "extend", "ops": {"x2": O("+", C("x"), V(10)), "y2": O("+", C("y"), V(10))}}]
    if depth == 1:
        return [{"op": "convert_records", "map": UNPIVOT2}]
    if depth == 2 and {"g", "k", "v1", "v2"} <= set(cols):
        return [
            {"op": "select_columns", "columns": ["g", "k", "v2", "v1"]},
            {"op": "select_columns", "columns": ["v2", "k", "g", "v1"]},
            {"op": "convert_records", "map": PIVOT2},
            {"op": "select_rows", "expr": O("==", C("k"), V("r1"))},
        ]
    if depth == 3 and {"g", "k", "v1", "v2"} <= set(cols):
        return [{"op": "convert_records", "map": PIVOT2}]
    return []


def work(hists, cfg, open_ids):
    kd, ke = cfg["kd"], cfg["ke"]
    part = core.Part(open_ids)
    for hist in hists:
        ops = H.build(hist)
        part.count("states_evaluated")
        if not backends.catalog_ok(ops):
            part.count("states_outside_catalog")
            continue
        g = backends.gen_sql(ops)
        tabs = H.hist_tables(hist)
        for data in inputs.data_maps(tabs, kd, ke, cfg["d_rows"], cfg["e_rows"]):
            a = backends.run_pandas(ops, data)
            b = backends.run_sql(g[1], data) if g[0] == "ok" else g
            part.count("traces_validated_against_impl")
            v = diff.decide_pair(hist, data, "pandas", a, "pandas", "sqlite", b, "sql", part)
            part.outcome((v, a[0], b[0], len(a[2]) if a[0] == "ok" else -1))
            if v == "agree":
                part.sample({"history": H.short(hist), "data": {k: t["rows"] for k, t in data.items()}, "result": compare.brief(a, 4)}, limit=1)
    return part.dump()


def run(tier):
    cfg = tier_cfg(tier)
    run = core.Run(PROP, tier)
    ex = explorer.Explorer(menus.core_menu_q if tier == "quick" else menus.core_menu)
    states = ex.run(cfg["depth"])
    hists = [s.hist for s in states]
    st = ex.stats()
    extra = {"core_depth": cfg["depth"], "core_states": st["states"]}
    if cfg["slice_depth"]:
        ex2 = explorer.Explorer(slice_menu)
        st2_states = ex2.run(cfg["slice_depth"])
        seen = {s.key for s in states}
        add = [s.hist for s in st2_states if s.key not in seen]
        hists += add
        s2 = ex2.stats()
        extra.update({"slice_depth": cfg["slice_depth"], "slice_states": s2["states"], "slice_transitions": s2["transitions"], "slice_new_states": len(add)})
        st["states"] += len(add)
        st["transitions"] += s2["transitions"]
        st["confluences"] += s2["confluences"]
        for k, v in s2["rejected_transitions"].items():
            st["rejected_transitions"][k] = st["rejected_transitions"].get(k, 0) + v
    if cfg.get("chain_depth"):
        ex3 = explorer.Explorer(chain_menu)
        st3 = ex3.run(cfg["chain_depth"])
        seen_h = {H.hist_key(h) for h in hists}
        add3 = [s.hist for s in st3 if H.hist_key(s.hist) not in seen_h]
        hists += add3
        s3 = ex3.stats()
        extra.update({"chain_depth": cfg["chain_depth"], "chain_states": s3["states"], "chain_new_states": len(add3)})
        st["states"] += len(add3)
        st["transitions"] += s3["transitions"]
        st["confluences"] += s3["confluences"]
    ex5 = explorer.Explorer(cdata_menu)
    st5 = ex5.run(4)
    hists += [s.hist for s in st5 if s.hist["steps"]]
    st["states"] += len(st5) - 1
    st["transitions"] += ex5.stats()["transitions"]
    ex4 = explorer.Explorer(prune_menu)
    st4 = ex4.run(3)
    seen_h4 = {H.hist_key(h) for h in hists}
    add4 = [s.hist for s in st4 if H.hist_key(s.hist) not in seen_h4]
    hists += add4
    extra.update({"prune_slice_new_states": len(add4)})
    st["states"] += len(add4)
    st["transitions"] += ex4.stats()["transitions"]
    hists = core.rotate(hists, run.seed)
    open_ids = list(run.open_findings)
    for p in core.pmap(work, [(c, cfg, open_ids) for c in core.chunks(hists, 40)]):
        run.merge(p)
    run.set("states", st["states"])
    run.set("transitions", st["transitions"])
    run.set("confluences", st["confluences"])
    run.set("rejected_transitions", sum(st["rejected_transitions"].values()))
    extra["rejected_by_class"] = st["rejected_transitions"]
    extra["rejected_samples"] = ex.rejected_samples
    run.assumptions += [
        "alphabets: tables d(g,x,y), e(g,w,y); row alphabets of mc/inputs.py; step menu mc/menus.core_menu",
        "R (mc/refmodel.py) is consulted only when the two executors disagree; a disagreement is accepted only if each side equals R under its own documented convention, and is a KNOWN-FINDING only if each side equals the exact as-is model built from the open entries of known_findings.json",
        "cases whose answer is undetermined (ties in a window order / a limit cutting a tie group) are skipped and counted",
    ]
    return run.finish(
        exhaustive=True,
        rule=f"all pipelines reachable in <= {cfg['depth']} builder calls over the core menu" + (" (quick tier: the first call from a thinner one-per-shape selection of the menu, every later call from the full menu)" if tier == "quick" else "")
        + (f" plus <= {cfg['slice_depth']} calls over the SQL-translation slice" if cfg["slice_depth"] else "")
        + f" plus <= {cfg['chain_depth']} calls over the extend-chain slice (plain / windowed / ordered extends creating, reading and overwriting each other's columns) and 3 calls over the pruning slice (aggregate or constant step, join, then a step keeping only the other side's columns)"
        + f", each on all multisets of <= {cfg['kd']} rows over the {len(cfg['d_rows'])}-row alphabet of d (and <= {cfg['ke']} rows over the {len(cfg['e_rows'])}-row alphabet of e when read); a case is one (pipeline, input) pair executed on Pandas and on SQLite",
        extra=extra,
    )


def replay(doc):
    case = doc["case"]
    hist, data = case["history"], case["data"]
    ops = H.build(hist)
    print(H.short(hist))
    print(ops.to_python(pretty=False))
    a = backends.run_pandas(ops, data)
    g = backends.gen_sql(ops)
    print(g[1])
    b = backends.run_sql(g[1], data) if g[0] == "ok" else g
    print("input ", {k: t["rows"] for k, t in data.items()})
    print("pandas", compare.brief(a))
    print("sqlite", compare.brief(b))
    a2 = backends.run_pandas(ops, data)
    assert a2 == a or (a[0] == "raise" and a2[0] == "raise"), "replay not deterministic"
    part = core.Part([f["id"] for f in core.load_findings() if f["status"] == "open"])
    v = diff.decide_pair(hist, data, "pandas", a, "pandas", "sqlite", b, "sql", part)
    print("verdict:", v)
    return 1 if v == "violation" else 0
