"""
C04 - SQL formatting and optimisation options never change query results.

Explicit-state BFS over the real builder on a DAG slice (un-windowed extends after windowed
ones - the SQL-level extend merge -, literal-bearing extends, selections / projections that give
the two uses of a shared sub-pipeline different `using` sets, and joins / concatenations whose
right side is the state's own earlier prefix, as the same object and as an equal rebuilt copy),
x the FULL product of option settings (use_with x use_cte_elim x annotate x initial_commas x
sql_indent x extend merging on/off) x two dialect texts (SQLite; PostgreSQL text run on the
SQLite engine, the only way CTE elimination can be executed here) x all small inputs.

Oracle (metamorphic, no reference model): every variant's result equals the default-option
result of the same dialect on the same engine; a variant may not fail to translate or execute
when the default does (and vice versa).
"""

import itertools

from mc import backends, compare, core, diff, explorer, inputs, menus
from mc import hist as H
from mc.hist import C, V, O, U, M, F
from mc.props import c18

PROP = "C04"


DEFAULT = {"use_with": True, "use_cte_elim": False, "annotate": True, "initial_commas": False, "sql_indent": " ", "allow_extend_merges": True}


def option_grid(tier):
    """thorough: the full product (96).  quick: the full product of the five boolean options (32) with the
    default indent, plus the other indent strings under the default and the all-flipped setting"""
    out = []
    if tier == "quick":
        # the full product of the four switches that change the structure of the text, with the two purely
        # lexical ones (initial_commas, sql_indent) at their defaults, plus four settings that vary those
        for use_with, cte, ann, merge in itertools.product([True, False], [False, True], [True, False], [True, False]):
            out.append({"use_with": use_with, "use_cte_elim": cte, "annotate": ann, "initial_commas": False, "sql_indent": " ", "allow_extend_merges": merge})
        for ind in ("    ", "\t"):
            out.append(dict(DEFAULT, sql_indent=ind, initial_commas=True))
            out.append({"use_with": False, "use_cte_elim": True, "annotate": False, "initial_commas": True, "sql_indent": ind, "allow_extend_merges": False})
        return out
    for use_with, cte, ann, ic, ind, merge in itertools.product([True, False], [False, True], [True, False], [False, True], [" ", "    ", "\t"], [True, False]):
        out.append({"use_with": use_with, "use_cte_elim": cte, "annotate": ann, "initial_commas": ic, "sql_indent": ind, "allow_extend_merges": merge})
    return out


_models = {}


def model(dialect, merge):
    k = (dialect, merge)
    m = _models.get(k)
    if m is None:
        if dialect == "sqlite":
            import data_algebra.SQLite

            m = data_algebra.SQLite.SQLiteModel()
        else:
            import data_algebra.PostgreSQL

            m = data_algebra.PostgreSQL.PostgreSQLModel()
        m.allow_extend_merges = merge
        _models[k] = m
    return m


def to_sql(ops, dialect, opt):
    from data_algebra.sql_format_options import SQLFormatOptions

    fo = SQLFormatOptions(
        use_with=opt["use_with"],
        annotate=opt["annotate"],
        sql_indent=opt["sql_indent"],
        initial_commas=opt["initial_commas"],
        use_cte_elim=opt["use_cte_elim"],
        warn_on_method_support=False,
        warn_on_novel_methods=False,
    )
    return backends.gen_sql(ops, model=model(dialect, opt["allow_extend_merges"]), sql_format_options=fo)


def dag_menu(cols, roles, depth, hist, rich=True):
    K, N = menus._pick(cols, roles)
    items = []
    A = N[0] if N else None
    B = N[1] if len(N) > 1 else None
    z = menus._new(cols)
    if A is None:
        return items
    newc = [c for c in cols if c.startswith("z")]
    if depth <= 1:
        # windowed extends and plain extends: windowed-then-plain is the SQL-level merge
        items.append({"op": "extend", "ops": {z: M("sum", C(A))}, "partition_by": [K[0]] if K else 1})
        items.append({"op": "extend", "ops": {z: O("+", C(A), V(1))}})
        # an ordered window right after an extend that re-defines its order column (in an order-reversing way)
        items.append({"op": "extend", "ops": {z: F("_row_number")}, "partition_by": [K[0]] if K else 1, "order_by": [A], "reverse": []})
        items.append({"op": "extend", "ops": {A: U("-", C(A))}})
        if depth == 0 or rich:
            items.append({"op": "extend", "ops": {z: M("max", C(A))}, "partition_by": 1})
            items.append({"op": "extend", "ops": {A: O("*", C(A), V(2))}})
            if B:
                items.append({"op": "extend", "ops": {z: O("+", C(A), V(1)), B: O("*", C(A), V(10))}})
            items.append({"op": "extend", "ops": {z: V("a--b%s /* c */")}})
        for c in newc[:1]:
            # reads / overwrites a column the previous (possibly windowed) extend produced
            items.append({"op": "extend", "ops": {z: O("+", C(c), V(1))}})
            items.append({"op": "extend", "ops": {c: O("+", C(c), C(A))}})
    if depth >= 1:
        if K:
            items.append({"op": "project", "ops": {"s": M("sum", C(A))}, "group_by": [K[0]]})
            items.append({"op": "select_columns", "columns": [K[0], A]})
            if newc:
                items.append({"op": "select_columns", "columns": [K[0], newc[-1]]})
                if rich:
                    items.append({"op": "drop_columns", "columns": [newc[-1]]})
        if rich or depth == 1:
            items.append({"op": "order_rows", "columns": [A], "reverse": [], "limit": 2})
        if rich or depth == 1:
            items.append({"op": "select_rows", "expr": O(">", C(A), V(1))})
    last = hist["steps"][-1] if hist["steps"] else None
    if depth >= 2 and last is not None and last["op"] in ("select_rows", "order_rows"):
        # the textually identical last step applied to a different source: the state two steps back
        # (C04-r4m1: a common-table-expression key that identifies the step but not what it reads)
        items.append({"op": "concat_rows", "b": {"prefix": depth - 2, "steps": [last]}, "id_column": None})
    if depth >= 1 and K:
        k = K[0]
        for p in sorted({0, depth - 1, depth}):
            # same object used twice (shared sub-DAG); p == depth is the state itself
            for jt in ("LEFT", "INNER") if (rich or p == depth) else ("LEFT",):
                items.append({"op": "natural_join", "b": {"prefix": p}, "on": [k], "jointype": jt})
        # an equal but separately built copy of the state's own history
        items.append({"op": "natural_join", "b": {"table": hist["table"], "steps": list(hist["steps"])}, "on": [k], "jointype": "LEFT"})
        items.append({"op": "concat_rows", "b": {"prefix": depth}, "id_column": "src", "a_name": "a", "b_name": "b"})
        items.append({"op": "concat_rows", "b": {"prefix": depth}, "id_column": None})
        last = hist["steps"][-1] if hist["steps"] else None
        if last is not None and last["op"] == "select_columns" and len(last["columns"]) == 2:
            # the same earlier prefix narrowed to the same columns in the other order, stacked by position
            rev = {"op": "select_columns", "columns": list(reversed(last["columns"]))}
            items.append({"op": "concat_rows", "b": {"prefix": depth - 1, "steps": [rev]}, "id_column": None})
        # a member of the union that carries its own ORDER BY / LIMIT (inline without WITH)
        lim = {"op": "order_rows", "columns": [A], "reverse": [], "limit": 1}
        items.append({"op": "concat_rows", "b": {"prefix": depth, "steps": [lim]}, "id_column": None})
        if rich:
            items.append({"op": "concat_rows", "b": {"prefix": depth, "steps": [lim]}, "id_column": "src"})
        if rich:
            items.append({"op": "natural_join", "b": menus.E_HIST, "on": [k], "jointype": "LEFT"})
    return items


def dag_menu_quick(cols, roles, depth, hist):
    return dag_menu(cols, roles, depth, hist, rich=False)


def raw_sql_pipelines():
    """pipelines whose leaves are raw SQL nodes (steps that carry no ops_key) used twice with different text;
    expressed as pseudo-histories {"special": name} because SQLNode is not a builder step of the menus"""
    return [{"table": "d", "special": n, "steps": []} for n in ("sqlnode_concat", "sqlnode_join", "sqlnode_same_twice", "sqlnode_concat_extend")]


def shared_step_in_two_column_orders():
    """one limited, ordered sub-pipeline S used twice as a member of a union, once where the union's column order
    is (g, x, y) and once where it is (y, x, g): union members are read by position"""
    out = []
    for lim in (2, 1):
        S = {"op": "order_rows", "columns": ["x"], "reverse": [], "limit": lim}
        rev = {"op": "select_columns", "columns": ["y", "x", "g"]}
        for idc in (None, "src"):
            out.append(
                {
                    "table": "d",
                    "steps": [
                        S,
                        {"op": "concat_rows", "b": {"prefix": 0}, "id_column": None},
                        {"op": "concat_rows", "b": {"prefix": 0, "steps": [rev, {"op": "concat_rows", "b": {"prefix": 1}, "id_column": None}]}, "id_column": idc},
                    ],
                }
            )
    return out


def build_special(name):
    from data_algebra.view_representations import SQLNode

    a = SQLNode(sql=['SELECT "g", "x" FROM "d" WHERE "x" <= 1'], column_names=["g", "x"], view_name="va")
    b = SQLNode(sql=['SELECT "g", "x" FROM "d" WHERE "x" > 1'], column_names=["g", "x"], view_name="vb")
    if name == "sqlnode_concat":
        return a.concat_rows(b, id_column="src")
    if name == "sqlnode_concat_extend":
        return a.extend({"y": "x + 1"}).concat_rows(b.extend({"y": "x + 1"}), id_column=None)
    if name == "sqlnode_join":
        return a.natural_join(b.rename_columns({"x2": "x"}), on=["g"], jointype="LEFT")
    if name == "sqlnode_same_twice":
        return a.extend({"y": "x + 1"}).concat_rows(a.extend({"y": "x + 1"}), id_column="src")
    raise ValueError(name)


def work(hists, tier, open_ids):
    part = core.Part(open_ids)
    grid = option_grid(tier)
    for hist in hists:
        try:
            ops = build_special(hist["special"]) if "special" in hist else H.build(hist)
        except Exception:
            part.count("state_not_rebuildable")
            continue
        part.count("states_evaluated")
        label = hist.get("special") or H.short(hist)
        tabs = H.hist_tables(hist)
        datas = inputs.data_maps(tabs, 2, 1, inputs.D_ROWS_Q, inputs.E_ROWS_Q)
        for dialect in ("sqlite", "pgtext@sqlite"):
            base = to_sql(ops, dialect, DEFAULT)
            # group option settings by the text they produce: every distinct text is executed once
            texts = {}
            failed = []
            for opt in grid:
                g = to_sql(ops, dialect, opt)
                part.count("translations")
                if g[0] != "ok":
                    failed.append((opt, g))
                    continue
                texts.setdefault(g[1], []).append(opt)
            part.count("distinct_texts", len(texts))
            if base[0] != "ok":
                ok_variants = [o for os_ in texts.values() for o in os_]
                if ok_variants:
                    part.violation({"history": hist, "dialect": dialect, "default": compare.brief(base), "variant_options": ok_variants[0]}, f"{dialect}: the default options fail to translate but other options succeed: {label}")
                else:
                    part.count("untranslatable:" + dialect)
                continue
            for opt, g in failed[:1]:
                part.violation({"history": hist, "dialect": dialect, "options": opt, "error": compare.brief(g)}, f"{dialect}: options {opt} make translation fail ({g[1]}) while the default options translate: {label}")
            for data in datas:
                if "special" not in hist and c18.determined(hist, data) is False:
                    # a limit cutting through distinguishable tied rows (or ties in a window order): two correct
                    # texts may legitimately return different rows, the answer is not determined
                    part.count("skipped_order_dependent")
                    continue
                rb = backends.run_sql(base[1], data)
                stop = False
                for text, opts in texts.items():
                    if text == base[1]:
                        continue
                    r = backends.run_sql(text, data)
                    part.count("traces_validated_against_impl")
                    part.outcome((dialect, rb[0], r[0], len(r[2]) if r[0] == "ok" else -1))
                    if rb[0] == "raise" and r[0] == "raise":
                        continue
                    if not diff.results_equal(hist, rb, r):
                        part.violation(
                            {"history": hist, "data": data, "dialect": dialect, "options": opts[0], "n_option_settings_with_this_text": len(opts), "default_result": compare.brief(rb), "variant_result": compare.brief(r), "variant_sql": text, "default_sql": base[1]},
                            f"{dialect}: options {opts[0]} change the query result: {label}",
                        )
                        stop = True
                        break
                if stop:
                    break
        part.sample({"history": label}, limit=1)
    return part.dump()


def run(tier):
    run = core.Run(PROP, tier)
    depth = 3  # quick: the thinner menu and 20 option settings; thorough: the rich menu and all 96 settings
    ex = explorer.Explorer(dag_menu_quick if tier == "quick" else dag_menu)
    states = ex.run(depth)
    hists = core.rotate([s.hist for s in states] + raw_sql_pipelines() + shared_step_in_two_column_orders(), run.seed)
    for p in core.pmap(work, [(c, tier, list(run.open_findings)) for c in core.chunks(hists, 6)]):
        run.merge(p)
    st = ex.stats()
    run.set("states", st["states"])
    run.set("transitions", st["transitions"])
    run.set("confluences", st["confluences"])
    run.set("option_settings", len(option_grid(tier)))
    run.assumptions += [
        "pgtext@sqlite = PostgreSQL-dialect SQL text executed on the SQLite engine (no PostgreSQL server exists here); all variants of one dialect run on the same engine, so engine-specific value semantics cancel",
        "inputs whose answer is not determined (a limit cutting through distinguishable tied rows, ties in a window order) are excluded via the reference model's tie detection and counted",
        "extend merging is switched through the model attribute allow_extend_merges; CTE elimination through SQLFormatOptions.use_cte_elim (effective on the PostgreSQL dialect only, SQLiteModel declares supports_cte_elim=False)",
    ]
    return run.finish(
        exhaustive=True,
        rule=f"every state at depth <= {depth} of the DAG slice (window/plain extends, selections, projections, limits, joins and concatenations with the state's own prefixes as the same object and as a rebuilt copy), plus 4 pipelines over raw SQL nodes used twice and 4 in which one limited, ordered sub-pipeline is a member of two unions with different column orders, x {len(option_grid(tier))} option settings ({'the full product of use_with, use_cte_elim, annotate and extend merging, plus 4 settings varying initial_commas and sql_indent' if tier == 'quick' else 'the full product of the five switches and three indent strings'}) x 2 dialect texts x all multisets of <= 2 rows",
    )


def replay(doc):
    c = doc["case"]
    d = work([c["history"]], "thorough", [])
    for v in d["violations"][:5]:
        print(v["what"])
        if "variant_sql" in v["case"]:
            print(v["case"]["variant_sql"])
    return 1 if d["violations"] else 0
