"""
C24 - OrderedSet is a set that remembers first insertion order.

Complete reachable state graph of one OrderedSet over k elements under every public
operation, in lock-step with an insertion-ordered dict (sequence model) and a plain set
(membership model).  Plus the ordered_* helpers on all pairs of small lists.
"""

import itertools

from mc.core import Run


def _lists(elems, maxlen):
    out = []
    for n in range(maxlen + 1):
        out.extend(itertools.product(elems, repeat=n))
    return [list(t) for t in out]


def _build(state):
    from data_algebra.OrderedSet import OrderedSet

    s = OrderedSet()
    for e in state:
        s.add(e)
    return s


def _model_build(state):
    return {e: None for e in state}


# ---- in-place operations: (name, real(s, arg), model(d, arg)), arg domain name
def _m_add(d, a):
    d[a] = None  # dict keeps first insertion position on re-assignment


def _m_discard(d, a):
    d.pop(a, None)


def _m_update(d, lst):
    for e in lst:
        d[e] = None


def _m_iand(d, lst):
    keep = set(lst)
    for e in list(d):
        if e not in keep:
            del d[e]


def _m_isub(d, lst):
    for e in lst:
        d.pop(e, None)


def _m_ixor(d, lst):
    # symmetric difference against the *set* of lst; new elements in order of first occurrence
    seen = set()
    for e in lst:
        if e in seen:
            continue
        seen.add(e)
        if e in d:
            del d[e]
        else:
            d[e] = None


def _apply(name, s, arg, OrderedSet):
    """Apply mutating op `name` to real set s. Returns (outcome, s_after)."""
    if name == "add":
        s.add(arg)
    elif name == "discard":
        s.discard(arg)
    elif name == "remove":
        s.remove(arg)
    elif name == "pop":
        return ("ret", s.pop()), s
    elif name == "clear":
        s.clear()
    elif name == "update":
        s.update(arg)
    elif name == "update2":
        s.update(arg[0], arg[1])
    elif name == "ior":
        s |= OrderedSet(arg)
    elif name == "iand":
        s &= OrderedSet(arg)
    elif name == "isub":
        s -= OrderedSet(arg)
    elif name == "ixor":
        s ^= OrderedSet(arg)
    elif name == "iand_plain":
        s &= set(arg)
    elif name == "isub_plain":
        s -= set(arg)
    elif name == "difference_update":
        s.difference_update(OrderedSet(arg))
    elif name == "intersection_update":
        s.intersection_update(OrderedSet(arg))
    elif name == "symmetric_difference_update":
        s.symmetric_difference_update(OrderedSet(arg))
    else:
        raise KeyError(name)
    return ("ok",), s


def _apply_model(name, d, arg):
    if name == "add":
        _m_add(d, arg)
    elif name == "discard":
        _m_discard(d, arg)
    elif name == "remove":
        if arg not in d:
            return ("raise", "KeyError")
        del d[arg]
    elif name == "pop":
        if len(d) == 0:
            return ("raise", "KeyError")
        # the property fixes membership only; which element pop() removes is not stated:
        # the caller aligns the model with the element actually returned.
        return ("pop",)
    elif name == "clear":
        d.clear()
    elif name == "update":
        _m_update(d, arg)
    elif name == "update2":
        _m_update(d, arg[0])
        _m_update(d, arg[1])
    elif name == "ior":
        _m_update(d, arg)
    elif name in ("iand", "iand_plain", "intersection_update"):
        _m_iand(d, arg)
    elif name in ("isub", "isub_plain", "difference_update"):
        _m_isub(d, arg)
    elif name in ("ixor", "symmetric_difference_update"):
        _m_ixor(d, arg)
    else:
        raise KeyError(name)
    return ("ok",)


def run(tier):
    from data_algebra.OrderedSet import (
        OrderedSet,
        ordered_union,
        ordered_intersect,
        ordered_diff,
    )

    run = Run("C24", tier)
    k = 3 if tier == "quick" else 4
    elems = ["a", "b", "c", "d"][:k]
    lsts = _lists(elems, 2 if tier == "quick" else 3)
    elem_ops = ["add", "discard", "remove"]
    nullary = ["pop", "clear"]
    list_ops = [
        "update",
        "ior",
        "iand",
        "isub",
        "ixor",
        "iand_plain",
        "isub_plain",
        "difference_update",
        "intersection_update",
        "symmetric_difference_update",
    ]
    events = (
        [(o, e) for o in elem_ops for e in elems]
        + [(o, None) for o in nullary]
        + [(o, l) for o in list_ops for l in lsts]
        + [("update2", (l1, l2)) for l1 in _lists(elems, 1) for l2 in _lists(elems, 1)]
    )
    init = ()
    seen = {init}
    frontier = [init]
    transitions = 0
    observers = 0
    while frontier:
        nxt = []
        for st in frontier:
            # ---- observers on this state (non-mutating API) vs set/dict models
            s = _build(st)
            d = _model_build(st)
            pl = set(st)
            if list(s) != list(d) or len(s) != len(d):
                run.violation({"state": st}, "rebuild by adds does not iterate in insertion order")
            if repr(s) != "OrderedSet([%s])" % ", ".join(map(repr, d)) or str(s) != "{%s}" % ", ".join(map(repr, d)):
                run.violation({"state": st}, "repr/str does not list elements in insertion order")
            for e in elems:
                observers += 1
                if (e in s) != (e in pl):
                    run.violation({"state": st, "elem": e}, "membership differs from plain set")
            c = s.copy()
            if list(c) != list(d) or c is s:
                run.violation({"state": st}, "copy() differs")
            import copy as _copy

            c2 = _copy.copy(s)
            if list(c2) != list(d):
                run.violation({"state": st}, "__copy__ differs")
            c.add("zz")
            if "zz" in s:
                run.violation({"state": st}, "copy() shares storage")
            for l in lsts:
                o = OrderedSet(l)
                ps = set(l)
                observers += 1
                checks = {
                    "or": (set(s | o), pl | ps),
                    "and": (set(s & o), pl & ps),
                    "sub": (set(s - o), pl - ps),
                    "xor": (set(s ^ o), pl ^ ps),
                    "difference": (set(s.difference(o)), pl - ps),
                    "intersection": (set(s.intersection(o)), pl & ps),
                    "symmetric_difference": (set(s.symmetric_difference(o)), pl ^ ps),
                    "le": (s <= o, pl <= ps),
                    "lt": (s < o, pl < ps),
                    "ge": (s >= o, pl >= ps),
                    "gt": (s > o, pl > ps),
                    "eq": (s == o, pl == ps),
                    "ne": (s != o, pl != ps),
                    "issubset": (s.issubset(o), pl <= ps),
                    "issuperset": (s.issuperset(o), pl >= ps),
                    "isdisjoint": (s.isdisjoint(o), pl.isdisjoint(ps)),
                }
                for nm, (got, want) in checks.items():
                    run.outcome((nm, repr(got)))
                    if got != want:
                        run.violation({"state": st, "op": nm, "arg": l, "got": got, "want": want}, f"{nm} differs from plain set")
                for nm in ("or", "and", "sub", "xor"):
                    r = {"or": s | o, "and": s & o, "sub": s - o, "xor": s ^ o}[nm]
                    if len(list(r)) != len(set(r)):
                        run.violation({"state": st, "op": nm, "arg": l}, "duplicate elements in result")
                # union(): self's order, then elements that occur only in the arguments, in their order
                u = s.union(l)
                du = dict(d)
                _m_update(du, l)
                if list(u) != list(du):
                    run.violation({"state": st, "op": "union", "arg": l, "got": list(u), "want": list(du)}, "union order")
                u2 = s.union(l, ["a"])
                _m_update(du, ["a"])
                if list(u2) != list(du):
                    run.violation({"state": st, "op": "union2", "arg": l, "got": list(u2), "want": list(du)}, "union order (two args)")
                if list(s) != list(d):
                    run.violation({"state": st, "op": "observers", "arg": l}, "observer mutated the set")
            # ---- transitions
            for name, arg in events:
                transitions += 1
                s = _build(st)
                d = _model_build(st)
                want = _apply_model(name, d, arg)
                try:
                    got, s = _apply(name, s, arg, OrderedSet)
                except KeyError:
                    got = ("raise", "KeyError")
                if want == ("pop",):
                    if got[0] != "ret" or got[1] not in d:
                        run.violation({"state": st, "op": name, "got": got}, "pop() did not return a member")
                        continue
                    del d[got[1]]
                elif got != want:
                    run.violation({"state": st, "op": name, "arg": arg, "got": got, "want": want}, "outcome differs from model")
                    continue
                after = tuple(s)
                run.outcome((name, after))
                if list(after) != list(d) or set(after) != set(d) or len(s) != len(d):
                    run.violation(
                        {"state": st, "op": name, "arg": arg, "got": list(after), "want": list(d)},
                        "contents/order after operation differ from insertion-ordered model",
                    )
                    continue
                if len(run.samples) < 4 and name in ("ixor", "update2", "iand"):
                    run.sample({"state": st, "op": name, "arg": arg, "after": after})
                if after not in seen:
                    seen.add(after)
                    nxt.append(after)
        frontier = nxt
    import math

    expected_states = sum(math.perm(k, j) for j in range(k + 1))
    if len(seen) != expected_states:
        run.violation({"states": len(seen), "expected": expected_states}, "reachable state graph is not the full set of ordered arrangements")
    # ---- helpers on all pairs of lists (with duplicates)
    hl = _lists(elems, 3)
    helper_cases = 0
    for a in hl:
        for b in hl:
            helper_cases += 1
            da = dict.fromkeys(a)
            want_u = list(dict.fromkeys(a + b))
            want_i = [e for e in da if e in set(b)]
            want_d = [e for e in da if e not in set(b)]
            for nm, fn, want in (
                ("ordered_union", ordered_union, want_u),
                ("ordered_intersect", ordered_intersect, want_i),
                ("ordered_diff", ordered_diff, want_d),
            ):
                for mk in (list, tuple):
                    got = fn(mk(a), mk(b))
                    if not isinstance(got, OrderedSet) or list(got) != want:
                        run.violation({"helper": nm, "a": a, "b": b, "got": list(got), "want": want}, f"{nm} result/order")
                # OrderedSet arguments: same result, the arguments are left alone and the result is a set of its own
                for mka, mkb in ((OrderedSet, list), (list, OrderedSet), (OrderedSet, OrderedSet)):
                    xa, xb = mka(a), mkb(b)
                    before = (list(xa), list(xb))
                    got = fn(xa, xb)
                    if not isinstance(got, OrderedSet) or list(got) != want:
                        run.violation({"helper": nm, "a": a, "b": b, "argument_kinds": [mka.__name__, mkb.__name__], "got": list(got), "want": want}, f"{nm} result/order with OrderedSet arguments")
                        continue
                    got.add("__fresh__")
                    got.discard(elems[0])
                    if (list(xa), list(xb)) != before:
                        run.violation({"helper": nm, "a": a, "b": b, "argument_kinds": [mka.__name__, mkb.__name__], "arguments_before": before, "arguments_after": [list(xa), list(xb)]}, f"{nm} changed one of its OrderedSet arguments (or returned it, so that changing the result changes the argument)")
                run.outcome((nm, tuple(want)))
            if a != list(a) or b != list(b):
                pass
    run.sample({"helper": "ordered_union", "a": ["b", "a", "b"], "b": ["c", "a"], "want": ["b", "a", "c"]})
    run.set("states", len(seen))
    run.set("transitions", transitions)
    run.set("traces_validated_against_impl", transitions)
    run.set("evaluations", transitions + observers + helper_cases * 6)
    run.set("observer_checks", observers)
    run.set("helper_pairs", helper_cases)
    run.assumptions.append("which element pop() returns is not fixed by the property; any member is accepted")
    run.assumptions.append("for non in-place binary operators (| & - ^) only membership is compared; order is compared for in-place operators, union(), copy()")
    return run.finish(
        exhaustive=True,
        rule=f"complete reachable state graph of OrderedSet over {k} elements (every ordered arrangement of every subset), every public mutating op with every operand list of length <= {2 if tier=='quick' else 3}; helpers on all pairs of lists of length <= 3",
    )


def replay(doc):
    print(doc)
    return run("quick")
