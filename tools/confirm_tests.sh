#!/bin/bash
# usage: confirm_tests.sh <seeded id>...  -- re-runs the repository's baseline suite with each seeded patch applied (scratch worktree), records the outcome in meta.json
for SID in "$@"; do
  D=/verif/seeded/$SID
  WT=$(mktemp -d /tmp/mutconf.XXXXXX); rmdir "$WT"
  git -C /repo worktree add -q --detach "$WT" HEAD || continue
  if git -C "$WT" apply "$D/patch.diff"; then
    OUT=$(/verif/tools/run_baseline_in.sh "$WT" 2>&1 | head -5 | tr '\n' ' ')
  else
    OUT="PATCH DOES NOT APPLY"
  fi
  /venv/bin/python - "$D/meta.json" "$OUT" <<'PY'
import json, sys
p, out = sys.argv[1], sys.argv[2]
m = json.load(open(p)); m.setdefault("confirmed", {})["baseline_suite_rerun_on_scratch_worktree_of_repo_head"] = out.strip()
json.dump(m, open(p, "w"), indent=1)
PY
  echo "$SID: $OUT"
  git -C /repo worktree remove --force "$WT"; rm -rf "$WT"
done
