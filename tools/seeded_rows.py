#!/usr/bin/env python3
"""seeded_rows.py <id substring>  -- print DESIGN.md section-12 table rows for the seeded changes whose id contains the substring"""
import glob, json, sys
pat = sys.argv[1] if len(sys.argv) > 1 else ""
for f in sorted(glob.glob("/verif/seeded/*/meta.json")):
    m = json.load(open(f))
    if pat not in m["id"]:
        continue
    s = " ".join((m.get("summary") or "").split())[:170].replace("|", "/")
    print(f"| {m['id']} | {s} | {m['detected_by']} |")
