#!/opt/veriftools/pyvenv/bin/python
"""Validate MANIFEST.json and every evidence file against the schemas."""
import json, sys, glob, jsonschema
ms = json.load(open('/root/.vp/MANIFEST.schema.json'))
es = json.load(open('/root/.vp/EVIDENCE.schema.json'))
m = json.load(open('/verif/MANIFEST.json'))
jsonschema.validate(m, ms)
print('manifest ok', len(m['checks']), 'checks')
bad = 0
for c in m['checks']:
    p = c['evidence_file']
    try:
        e = json.load(open(p))
        jsonschema.validate(e, es)
        assert e['level'] == c['level_claimed']['category'], (e['level'], c['level_claimed']['category'])
        print('evidence ok', p, e['tier'], e['wall_s'])
    except Exception as ex:
        bad += 1
        print('EVIDENCE BAD', p, str(ex)[:300])
sys.exit(1 if bad else 0)
