#!/usr/bin/env python3
"""Print a markdown table of what each committed evidence file says the check covered."""
import glob, json
print("| id | tier | states | transitions | executions compared | wall s | open findings hit |")
print("|----|------|--------|-------------|---------------------|--------|-------------------|")
for p in sorted(glob.glob('/verif/evidence/C*.json')):
    e = json.load(open(p))
    c = e['coverage']
    kf = ", ".join(sorted(c.get('known_finding_hits', {}))) or "-"
    print(f"| {e['property_id']} | {e['tier']} | {c.get('states','')} | {c.get('transitions','')} | {c.get('traces_validated_against_impl', c.get('evaluations',''))} | {e['wall_s']:.0f} | {kf} |")
