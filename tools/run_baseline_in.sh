#!/bin/bash
# usage: run_tests.sh <worktree>   -- runs the repository's test suite in <worktree>, reports whether all 349 baseline tests still pass
WT="$1"
OUT=$(mktemp /tmp/mut/junit.XXXXXX.xml)
cd "$WT" && /venv/bin/python -m pytest -q -p no:cacheprovider --timeout=900 --continue-on-collection-errors --junitxml="$OUT" -x --co -q >/dev/null 2>&1
cd "$WT" && /venv/bin/python -m pytest -q -p no:cacheprovider --timeout=900 --continue-on-collection-errors --junitxml="$OUT" >/dev/null 2>&1
/venv/bin/python - "$OUT" <<'PY'
import sys, xml.etree.ElementTree as ET
want = [l.strip() for l in open('/tmp/mut/baseline_pass.txt') if l.strip()]
root = ET.parse(sys.argv[1]).getroot()
ok = set()
for tc in root.iter('testcase'):
    bad = any(ch.tag in ('failure', 'error', 'skipped') for ch in tc)
    if not bad:
        ok.add(tc.get('classname') + '::' + tc.get('name'))
missing = [w for w in want if w not in ok]
print(f"baseline tests passing: {len(want)-len(missing)}/{len(want)}")
for m in missing:
    print("  NOW FAILING:", m)
sys.exit(1 if missing else 0)
PY
RC=$?
rm -f "$OUT"
exit $RC
