#!/bin/bash
# usage: run_baseline_in.sh <worktree>  -- runs the repository's test suite in <worktree> and reports whether all
# baseline tests of /root/.vp/BASELINE.json still pass (exit 0 only if they all do)
WT="$1"
OUT=$(mktemp --suffix=.junit.xml)
cd "$WT" && /venv/bin/python -m pytest -q -p no:cacheprovider --timeout=900 --continue-on-collection-errors --junitxml="$OUT" >/dev/null 2>&1
/venv/bin/python - "$OUT" <<'PY'
import json, sys, xml.etree.ElementTree as ET
want = json.load(open('/root/.vp/BASELINE.json'))['stable_pass']
root = ET.parse(sys.argv[1]).getroot()
ok = set()
for tc in root.iter('testcase'):
    if not any(ch.tag in ('failure', 'error', 'skipped') for ch in tc):
        ok.add(tc.get('classname') + '::' + tc.get('name'))
missing = [w for w in want if w not in ok]
print(f"baseline tests passing: {len(want)-len(missing)}/{len(want)}")
for m in missing:
    print("  NOW FAILING:", m)
sys.exit(1 if missing else 0)
PY
RC=$?
rm -f "$OUT"
exit $RC
