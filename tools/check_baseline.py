#!/venv/bin/python
"""Compare a junit xml of the repo's test suite with BASELINE.json stable_pass."""
import json, sys, xml.etree.ElementTree as ET
base = json.load(open('/root/.vp/BASELINE.json'))
want = set(base['stable_pass'])
tree = ET.parse(sys.argv[1])
passed = set(); failed = set()
for tc in tree.iter('testcase'):
    name = tc.get('classname') + '::' + tc.get('name')
    bad = any(ch.tag in ('failure', 'error') for ch in tc)
    skipped = any(ch.tag == 'skipped' for ch in tc)
    if bad: failed.add(name)
    elif not skipped: passed.add(name)
missing = sorted(want - passed)
print('passed', len(passed), 'failed', len(failed), 'baseline', len(want), 'baseline tests not passing now:', len(missing))
for m in missing: print('  REGRESSION', m)
newpass = sorted(passed - want)
if newpass: print('newly passing:', newpass)
sys.exit(1 if missing else 0)
