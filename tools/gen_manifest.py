#!/venv/bin/python
"""Regenerate /verif/MANIFEST.json from the table below (kept valid at all times)."""
import json
import os
import subprocess
import sys

HERE = os.path.dirname(os.path.dirname(os.path.abspath(__file__)))

# id -> (category, technique, level text, level note, design ref)
PX_NOTE = "Trusted base: the explorer's structural state dump (mc/hist.canon), the step menus and row alphabets (stated in the evidence), the comparison relation EQ (mc/compare.py) and, only for disagreements, the reference interpreter R (mc/refmodel.py). Nothing beyond the stated alphabets and depth is claimed."

CHECKS = {
    "C01": (
        "model_checking",
        "explicit-state BFS over the real pipeline builder (canonical state hashing) x exhaustive small inputs; Pandas-vs-SQLite differential oracle, reference interpreter arbitrates disagreements",
        "Every pipeline reachable in <= 2 builder calls over a ~150-entry step menu (quick: first call from a thinner one-per-shape selection), plus <= 3 (thorough 4) calls over an extend-chain slice, 3 calls over a pruning slice and 4 over a record-conversion slice (thorough: plus <= 2 calls over a SQL-translation slice), is executed on every multiset of <= 2 (thorough 3) rows of a collision-forcing row alphabet on both the Pandas executor and generated SQL on SQLite; results must be EQ, or differ only by a documented destination convention, or match the exact as-is model of a listed finding.",
        PX_NOTE,
        "DESIGN.md 3/C01",
    ),
    "C03": (
        "model_checking",
        "explicit-state BFS over the real pipeline builder x exhaustive small inputs as Polars eager and lazy frames; Polars-vs-Pandas differential oracle (raise accepted)",
        "Same state space as C01; each (pipeline, input) is run on Pandas and on Polars (eager and lazy). A Polars exception is accepted and counted; a returned table must equal the Pandas table as a multiset (Pandas-side listed findings excused through the exact as-is model). Evidence reports, per step kind, how many Polars executions returned.",
        PX_NOTE,
        "DESIGN.md 3/C03",
    ),
    "C06": (
        "model_checking",
        "explicit-state exploration of the builder's transition graph: every transition s --step--> s' checked against the step applied to the materialised pre-state (same executor on both sides), plus accept/reject equivalence",
        "For every state at depth <= 1 (thorough: <= 2 on extend/select/drop/rename/order chains) and every outgoing menu entry (core menu + simplification entries: common-target extends, reads of replaced columns, swaps, re-selection of removed columns, checked joins): the chained pipeline must be accepted exactly when the same step is accepted on a fresh table description with the pre-state's columns, and on every multiset of <= 2 input rows (quick: the empty table, every single row and every pair of different rows) its Pandas result must equal the step evaluated on the pre-state's materialised result.",
        "Pandas on both sides (executor deviations cancel). Inputs whose answer depends on row order (ties) are skipped via the reference model's tie detection.",
        "DESIGN.md 3/C06",
    ),
    "C07": (
        "model_checking",
        "explicit-state exploration of composable pairs/triples: b explored from a's output columns; four composition forms vs sequential application on the materialised intermediate result",
        "All a at depth <= 1 (thorough 2) over a one-entry-per-operator-kind slice x all b at depth <= 2 explored from a table description with a's output columns are composed by a >> b, DataOpArrow composition, replace_leaves and eval with a map of pipelines; every form must be accepted, report dom/cod equal to the composed pipeline's columns, and on all multisets of <= 2 rows equal b run on the materialised result of a; all (a, b, c) with one-step b and c are checked for associativity (structural identity, else result identity).",
        "Pandas executor on both sides; tie-dependent inputs skipped via the reference model.",
        "DESIGN.md 3/C07",
    ),
    "C08": (
        "model_checking",
        "explicit-state BFS over the real pipeline builder x small inputs (incl. empty) x 5 executors; invariant: returned columns == declared column_names",
        "Every pipeline reachable in <= 2 builder calls (thorough: + column slice to depth 2) is executed on Pandas, Polars eager/lazy, SQLite and PostgreSQL-dialect text on the SQLite engine, on all multisets of <= 2 rows of a 2-row alphabet (empty input included) and on inputs carrying an undeclared extra column; the returned column set must equal ops.column_names, and the column order must be the one the last select_columns step asked for (through any tail of row-filtering / sorting steps; states are keyed by that request as well as by the built pipeline). No reference model is involved.",
        "A backend that raises returns no table and is not judged. pgtext@sqlite is not a PostgreSQL server; only column names are read from it.",
        "DESIGN.md 3/C08",
    ),
    "C09": (
        "model_checking",
        "bounded-exhaustive enumeration prefix x aggregation step x suffix x all small inputs x 5 executors; row-count / group-key invariant and per-group reference aggregates",
        "For every prefix state (depth <= 1), every project and unordered windowed-extend menu entry and five suffix shapes (none, overwrite all outputs, drop all outputs, rename, order) the pipeline is run on all multisets of <= 2 rows over the full product domain (null keys, all-null groups, empty table) on every backend: a grouped project must return one row per distinct key of the backend's own prefix result (null is a key), an un-grouped project exactly one row, a windowed extend every input row with the per-group reference value.",
        "The node's input is the same backend's evaluation of the prefix (self-consistent oracle); reference aggregate functions in mc/refmodel.py are trusted for the windowed values.",
        "DESIGN.md 3/C09",
    ),
    "C11": (
        "model_checking",
        "explicit-state BFS over the real builder; every explored pipeline paired with every single-step mutant; search for structurally different pipelines that compare ==",
        "Every pipeline reachable in <= 2 builder calls (core menu + record maps) is paired with every single-step mutant of its history (all other same-kind menu entries at that position, literal type variants, window/join/concat option variants, 5 record-map layouts) and with 3 table-description variants: == must be symmetric, != its negation, an independent rebuild must be ==, and any pair that compares == while structurally different must give the same Pandas result on every small input and character-identical SQL in all five dialects.",
        "Structural difference is decided by mc/hist.canon (finer than ==). Only single-step mutants are paired.",
        "DESIGN.md 3/C11",
    ),
    "C12": (
        "model_checking",
        "explicit-state BFS over the real builder + exhaustive Term-API expression-tree family; print / re-evaluate / pickle round trip with structural and behavioural comparison",
        "Every pipeline reachable in <= 2 builder calls (core menu, record maps, tuple-key joins) and every tree of a ~25k-member expression family built through the Term API (unary minus, powers, negative constants, %, //, comparisons, and/or/not, if_else/where, 13 hostile string constants in literals, ==, is_in, mapv keys/values, concat, coalesce; lists; dicts) is round-tripped through to_python(pretty=False), repr() (black) and pickle; the rebuilt pipeline must be == to the original and either structurally identical or give identical results.",
        "Trees are built through the Term API, so shapes the parser never emits are included; the family is one-sided at depth 2.",
        "DESIGN.md 3/C12",
    ),
    "C13": (
        "model_checking",
        "exhaustive enumeration of all expression texts of a Python-like grammar up to an operator bound; parse tree evaluated node-by-node vs CPython eval on an operand grid; print/re-parse equality",
        "All ~110k texts with <= 2 operator applications (15 binary operators, unary -, +, not, .abs(), .maximum(), atoms x y 2 0.5, with and without parentheses) plus all un-parenthesised 3-operator chains over every operator triple are parsed by the real parser; each accepted tree is evaluated with Python's own operators and compared with CPython's eval of the same text on the 36-point grid x,y in {-2..3}; every accepted text must also print to a text that parses back to an equal tree.",
        "The meaning of a tree is its node-by-node evaluation with Python operators; rows where CPython raises, where and/or/not meet a non-boolean, or where an eagerly evaluated sub-expression is undefined are excluded and counted.",
        "DESIGN.md 3/C13",
    ),
    "C26": (
        "model_checking",
        "explicit-state BFS over the real builder; every prefix state x a menu of single-rule violations and conforming twins; accept/reject verdict per documented rule",
        "Every prefix reachable in <= 2 builder calls (plus prefixes the builder simplifies away) is extended by ~60 menu entries, each instantiating one documented construction rule or its nearest conforming twin (unknown column per operator, changed partition/order/group column, use-and-produce vs self-update, non-aggregating / compound / nested project and window expressions, join key presence, common non-key columns with and without the check, concat column sets); the builder must raise exactly on the rule violations.",
        "Verdicts come from the menu (mc/props/c26.py rule_menu), i.e. from the rule each entry instantiates; rules the statement does not list are not in the menu.",
        "DESIGN.md 3/C26",
    ),
    "C20": (
        "model_checking",
        "explicit-state BFS over operation histories of the real DataModelSpace and DBSpace (fresh object rebuilt per history), dict reference model in lock-step, state merging on the model state",
        "All histories of length <= 3 (thorough 4) over 35 events - insert/execute/remove with user keys, automatic keys, the reserved-looking key 'da_temp_1', a pipeline that overwrites the table it reads, allow_overwrite on/off - are replayed on fresh in-memory and SQLite-backed spaces; after every event the outcome class, keys(), every retrieve() and every describe() must equal the dict model; a rejected operation must leave the store unchanged and an automatic key must be fresh.",
        "The dict model (mc/props/c20.py model_step) is the specification; exception classes are not compared; automatic key names are adopted from the implementation and only required to be fresh.",
        "DESIGN.md 3/C20",
    ),
    "C22": (
        "model_checking",
        "exhaustive enumeration of the full product specification x value x call shape x switch against a three-valued reference checker",
        "Every combination of 28 specifications (types, type sets, example values including the falsy ones 0, '', 0.0, False, sets of example values, column specs, two-column specs), 26 values (scalars; Pandas and Polars frames that conform, have a wrong type, nulls, only nulls, a missing or extra column, no rows; non-frames), the call shapes (positional, keyword, omitted; second declared argument), return specifications and the global switch is executed on a freshly decorated function and compared with a reference checker written from the statement.",
        "Reference checker in mc/props/c22.py (Python isinstance semantics; a null scalar against a non-None spec is left unspecified).",
        "DESIGN.md 3/C22",
    ),
    "C23": (
        "model_checking",
        "exhaustive enumeration of all edge lists up to a length bound against a union-find reference",
        "All edge lists of length <= 4 (thorough 6) over 4 vertices, for int, str and mixed int/float vertices, are labelled by the real function and by a union-find reference (label = least vertex of the component); plus, by symmetry reduction, all forest-building edge lists (every edge joins two different components) of 3..7 edges over <= 8 vertices up to vertex renaming, under the ascending and the descending labelling by first appearance (about 4.4 million lists); plus all edge lists of length <= 3 (4) over 3 vertices, for the same three vertex types, through extend({'c': 'connected_components(f, g)'}) and f.co_equalizer(g) on Pandas.",
        "Union-find reference in mc/props/c23.py. Vertices are totally ordered within a list.",
        "DESIGN.md 3/C23",
    ),
    "C25": (
        "model_checking",
        "all pairs of a complete small frame family (key injectivity) + explicit-state BFS over store/get/mutate histories of the real ResultCache with a dict reference model",
        "(i) every pair of frames from the complete family (<= 1 row quick / 2 rows thorough, 1-2 columns, int/float/str/bool) must get different keys whenever they differ in a value, a column name, the shape or the row order; (ii) all histories of length <= 3 (4) over 37 events (store/get over 2 dialects x 2 SQL texts x 3 data maps incl. a row permutation and a one-cell change x 2 results; mutate the last returned copy) are replayed on a fresh cache against a dict keyed by (dialect, sql, data map), with a full sweep of every key after each history; a further family of histories of length <= 4 (5) uses one caller-owned frame object that an 'edit' event changes in place between the contents of two fresh frames, so keys must follow contents and not object identity.",
        "Value difference is Python inequality (1 == 1.0 == True).",
        "DESIGN.md 3/C25",
    ),
    "C10": (
        "model_checking",
        "explicit-state BFS over the real pipeline builder x exhaustive small inputs x exhaustive perturbation menu of every unreported column; metamorphic oracle (result unchanged) on Pandas and SQLite, plus narrowed-replay equality",
        "Every pipeline reachable in <= 2 builder calls over the core menu (thorough: + <= 2 over the SQL-translation slice; both tiers: + <= 3 over a shared-DAG slice) whose columns_used() leaves some input column unreported is run on all multisets of <= 2 rows (quick: the empty table, every single row and two two-row tables) and re-run with the unreported columns replaced by all-null, by each constant of the column's domain, reversed and alternating values (thorough: one column at a time as well); the Pandas and the SQLite result must not change; the same history rebuilt over table descriptions narrowed to the reported columns must give the same result on the restricted inputs.",
        "Metamorphic: no reference model. A narrowed rebuild that the builder rejects because a step names an unreported column is counted, not judged.",
        "DESIGN.md 3/C10",
    ),
    "C16": (
        "model_checking",
        "exhaustive enumeration of join type x key specification x result-column selection x all pairs of small tables on five executors; reference join validated against a hand-written native SQL join on every case",
        "5 join types x 5 key specifications (same-named key, differently named key, two keys, no keys, a left key that is also a non-key column of the right table; CROSS only without keys) x result-column selections (all columns, every single column, key + shared column, which drive the SQL pruning of the join) x every pair of multisets of <= 2 (thorough 3) left rows and <= 2 (3) right rows over alphabets with duplicate keys, null keys on either side, empty sides and null/non-null shared non-key values, on Pandas, Polars eager, Polars lazy, SQLite-dialect SQL and PostgreSQL-dialect SQL text on the SQLite engine; each result must equal the reference join, which is itself checked against a hand-written native SQL join on SQLite for every case.",
        "Reference join: mc/refmodel.py s_natural_join (null keys never match; shared non-key columns coalesce left then right). pgtext@sqlite is not a PostgreSQL server. Listed findings are matched through the exact as-is model or a narrow (backend, exception, join type, key specification) matcher.",
        "DESIGN.md 3/C16",
    ),
    "C18": (
        "model_checking",
        "explicit-state BFS over the real pipeline builder x every sequence of input rows (all row orders of every small multiset) x Pandas index variants x executors; metamorphic oracle (same multiset in another order / index gives the same table) plus sortedness and limit-prefix invariants of a final order_rows",
        "Every state at depth <= 1 over the core menu and <= 2 over an ordering/window slice (thorough: 4-row alphabet, every index variant on every ordering, lazy frames too) is evaluated on every sequence of <= 3 rows (all orderings of every multiset; two-table pipelines <= 2 x <= 1 rows) on Pandas (default, reversed, duplicate-label and string indexes), Polars and SQLite: all orderings and re-indexings of one multiset must give the same result multiset (and order-key sequence after a final order_rows), the Pandas result must carry the default index, a final order_rows must be sorted in the declared directions, and with limit n must return the first n order keys of the same pipeline without the limit and only rows of it.",
        "Inputs whose answer is undetermined (ties or nulls in a window order, a limit cutting through distinguishable tied rows, under either null placement) are excluded via the reference model's tie detection, as the property's precondition states; null placement itself is not judged.",
        "DESIGN.md 3/C18",
    ),
    "C19": (
        "model_checking",
        "explicit-state BFS over the real pipeline builder x exhaustive small inputs x index variants x entry points x frame kinds; deep before/after snapshot invariant and run-twice equality",
        "Every core-menu state at depth <= 1 and every state at depth <= 2 (over a one-entry-per-operator slice; quick: every other slice entry as first step; thorough: all inputs and every index variant on every entry point) is evaluated through eval, transform, ex (captured tables), frame >> ops and act_on on all multisets of <= 2 rows as Pandas frames (default, reversed, duplicate-label and string index with a named index; with an extra unused column), Polars eager and Polars lazy frames; a bit-exact snapshot of every caller frame (values, dtypes, columns, index values and name, object identity) must be unchanged afterwards and a second evaluation must return the identical table.",
        "Snapshots compare cells by repr; attrs/flags ignored. Multi-table pipelines only through eval.",
        "DESIGN.md 3/C19",
    ),
    "C24": (
        "model_checking",
        "explicit-state search: complete reachable state graph of the real OrderedSet, lock-step dict/set reference model",
        "All 16 (quick: 3 elements; thorough: 65, 4 elements) reachable ordered states x every public operation x every small operand list are executed on the real class and compared with an insertion-ordered dict and a plain set after every transition; helpers on all pairs of lists of length <= 3. Complete for the stated element count, nothing sampled.",
        "Assumes behaviour does not depend on element identity beyond equality/hash (elements are short strings); pop() may return any member.",
        "DESIGN.md 3/C24",
    ),
}

CHECKS["C27"] = (
    "model_checking",
    "exhaustive enumeration of window function x partition spec x order spec x reverse subset x all small tables with a total order, against a reference window evaluation, on every supporting executor",
    "16 ordered window functions (cumsum/cummax/cummin/cumprod, _row_number, cumcount, shift with 4 period values, rank, first, last, bfill, ffill) x partition_by in {1, [g], [g,h]} x order_by in {[x], [y,x], [x,y]} x every subset of the order columns as reverse, plus 12 group aggregates x the 3 partition specs, each on all multisets of <= 3 rows (thorough: also all 4-row subsets and every row order) over a 6-7 row alphabet on which the three orderings differ, one order column breaks ties of the other, a partition key is null and values contain nulls and a negative number; Pandas always, SQLite where the catalog says 'y', Polars whenever it returns; each returned table must equal the reference evaluation.",
    "Reference window evaluation in mc/refmodel.py (partition; sort by declared keys and reversals; apply along that order). Tables on which the declared order is not total within a partition are excluded. Outcomes the documentation does not settle are excluded and counted. Listed findings are matched through exact as-is switches.",
    "DESIGN.md 3/C27",
)

CHECKS["C04"] = (
    "model_checking",
    "explicit-state BFS over the real pipeline builder on a shared-sub-DAG slice x the product of SQL option settings x two dialect texts x exhaustive small inputs; metamorphic oracle (every option setting returns the default setting's table on the same engine)",
    "Every state at depth <= 3 of a DAG slice (quick: a thinner menu; thorough: the rich menu) - plain, windowed and ordered extends creating / reading / overwriting each other's columns (the SQL-level extend merge), literal-bearing extends, selections and projections, joins / concatenations whose right side is the state's own earlier prefix as the same object and as an equal rebuilt copy, and the state's last selection / limit step applied once more to a different source (the state two steps back) and stacked under the state - is translated under every combination of use_with x use_cte_elim x annotate x extend merging (quick: 16 settings, plus four settings that vary initial_commas and the indent string; thorough: x initial_commas x three indent strings, 96 settings) for the SQLite dialect and for the PostgreSQL dialect; every distinct text is executed on the SQLite engine on all multisets of <= 2 rows and must return the default setting's table; no setting may fail to translate or execute when the default succeeds.",
    "PostgreSQL-dialect text is executed on the SQLite engine (the only way CTE elimination can be executed here; it is not a PostgreSQL server); all variants of a dialect run on the same engine so engine semantics cancel. No reference model.",
    "DESIGN.md 3/C04",
)
CHECKS["C15"] = (
    "model_checking",
    "explicit-state BFS over the real pipeline builder x exhaustive menu of single renamings (columns and tables) into internal names x small inputs x three executors; metamorphic oracle (renaming commutes with evaluation)",
    "Every state at depth <= 1 over the core menu (thorough: + depth <= 2 over a one-entry-per-operator slice) is rebuilt under every single renaming of one of its input or step-introduced columns to each of 21 names the executors / SQL generator use internally (scratch columns, CTE and alias names, SQL keywords, a neutral control) and to the join-suffix names derived from every other column, and of one of its tables to 14 names; original and renamed pipelines run on Pandas, Polars and SQLite on the empty table, every single row and the whole row alphabet; the renamed result must be the renamed original result, and a renamed pipeline may not be rejected or fail where the original ran.",
    "Listed findings (one per family of capturing scratch names) are matched narrowly on (backend, exact name renamed to, step kinds present).",
    "DESIGN.md 3/C15",
)

CHECKS["C05"] = (
    "model_checking",
    "exhaustive enumeration of catalogue method x supporting executor x complete product of argument domains (packed as the rows of one table through the real extend/project machinery) against a three-valued table of reference functions transcribed from the documentation",
    "Every row of op_catalog.methods_table except _uniform (random) and _ngroup (no documented numbering) is modelled: 28 unary, 14 operator, 9 two-argument, 3 logical and 2 ternary numeric methods on the complete 10-value / 10x10 / 3x10x10 grids (null, negatives, zero, halves, 1e6; infinities for the is_* tests), string / set / map methods on a 6x6 string grid, 19 date and time methods on every day of 2019-12-25..2021-01-07 (year/leap/week boundaries) and day pairs, and 15 aggregates / 12 window functions on every value sequence of length <= 3 (thorough 4) over {NULL,1,2,3} or {NULL,True,False} as a group of its own; each on Pandas where the catalogue says 'y', SQLite where it says 'y' and Polars always (an exception from Polars is accepted); every specified cell must equal the documented value.",
    "The reference table (mc/props/c05.py) is three-valued: value / NULL / unspecified; the unspecified set is listed in the evidence assumptions and counted. PostgreSQL flags cannot be executed here. Methods with no documented numbering (dayofweek, weekofyear) are compared between Pandas and Polars only.",
    "DESIGN.md 3/C05",
)

CHECKS["C14"] = (
    "model_checking",
    "exhaustive enumeration of all short strings over a hostile alphabet x injection site x dialect x annotation switch; SQLite: executed and read back; all dialects: tokenised by a per-dialect lexer model (token skeleton invariance + literal decodes to the probe)",
    "All strings of length <= 2 (thorough 3) over 14 symbols (the quote characters of every dialect, backslash, newline, tab, percent, - / * ;, space, a letter, a non-ASCII letter) are injected at 10 sites (string literal in extend / select_rows / is_in list / mapv key / mapv value, concat_rows labels, table name, column name, record-map control-table key values for un-pivot and pivot) and translated for SQLite, PostgreSQL, MySQL, SparkSQL and BigQuery with annotations on and off; on SQLite the query is executed and the value or column name read back must be the probe; for every dialect the text is tokenised by a lexer model of that dialect and must have the token skeleton of the same query built with a harmless string, with the site token decoding to exactly the probe; names containing the dialect's identifier quote must be rejected at generation.",
    "The four non-SQLite lexer models are mine and part of the trusted base (their rules are stated in the evidence); the SQLite model is cross-checked against the SQLite engine on every case and a disagreement aborts the run.",
    "DESIGN.md 3/C14",
)

CHECKS["C17"] = (
    "model_checking",
    "exhaustive enumeration of a bounded family of strict record specifications x all small conforming tables x both directions x Pandas and Polars; inverse round trip, reference pivot / un-pivot, composition law over all composable pairs",
    "66 (thorough 120) strict record specifications (1-2 control-table key columns, 2-3 block rows, 1-2 value columns, record keys [], [g], [g,h], two cell-name arrangements; key columns leading the control table, listed after the value columns, and between two value columns - quick takes the latter two for the two-row contiguous layouts only) x every record-keyed table with <= 2 (3) records whose cells follow the patterns all-null / constant / all-distinct / one-null: rows->blocks must equal the reference un-pivot, inverse() must undo it, blocks->rows must return the original rows and its inverse() the blocks, on Pandas and on Polars (which must agree; a Polars exception on a valid layout is reported); for all composable pairs of maps over the same record keys and cell names, a >> b and b.compose(a) must equal applying a then b.",
    "Reference pivot / un-pivot in mc/refmodel.py; row order of results is not compared.",
    "DESIGN.md 3/C17",
)
CHECKS["C21"] = (
    "model_checking",
    "exhaustive enumeration of all valid small inputs per solution helper, each helper pipeline evaluated on Pandas and SQLite against an independent reference computation",
    "rank_to_average: all multisets of <= 4 (thorough 5) rows over partition {a,b} x value {1,2,3}, with and without partition_by, against the mean 1-based position of the tie group; last_observed_carried_forward: all tables of <= 4 (5) rows over 5 distinct (partition, time) keys x values {NULL,1,2}, plus all such tables over repeated (partition, time) keys whose result is the same under every tie-breaking order, with and without partition_by, against a scan; replicate_rows_query: max_count 1..16 (1..64) x every count 1..max_count on one- and two-row tables (and the empty table), against explicit replication numbered from 0; def_multi_column_map: all 81 mapping tables over a 2x2 (column, value) grid x keyed tables with mapped, unmapped and missing values x coalesce_value {None, 0} x cols_to_map_back {None, renamed}, against dictionary lookup; each on Pandas and on SQLite.",
    "Reference computations in mc/props/c21.py are written from the helper docstrings.",
    "DESIGN.md 3/C21",
)

NOT_YET = "check not built yet in this session (work in progress, see DESIGN.md section 3)"

NOT_APPLICABLE = {
    "C02": "needs a real PostgreSQL server as the transition function; none exists in this sealed sandbox (no binaries, no network). PostgreSQL-dialect text paths are exercised on the SQLite engine under C04/C08/C16 only where the oracle does not depend on PostgreSQL value semantics (DESIGN.md section 4).",
}


def main():
    props = [json.loads(l) for l in open(os.path.join(HERE, "properties.jsonl"))]
    checks = []
    na = []
    for p in props:
        pid = p["id"]
        if pid in CHECKS:
            cat, tech, text, note, ref = CHECKS[pid]
            checks.append(
                {
                    "property_id": pid,
                    "quick_cmd": f"/venv/bin/python /verif/check.py {pid} --tier quick",
                    "thorough_cmd": f"/venv/bin/python /verif/check.py {pid} --tier thorough",
                    "evidence_file": f"/verif/evidence/{pid}.json",
                    "replay_cmd_template": f"/venv/bin/python /verif/check.py {pid} --replay {{path}}",
                    "engine": "mc",
                    "level_claimed": {"category": cat, "text": text, "design_ref": ref},
                    "level_note": note,
                    "technique": tech,
                }
            )
        else:
            na.append({"property_id": pid, "reason": NOT_APPLICABLE.get(pid, NOT_YET)})
    hooks_commits = []
    man = {
        "version": 1,
        "setup_cmd": "/venv/bin/python -c \"import sys; sys.path.insert(0,'/repo'); import data_algebra, pandas, polars, sqlite3; print('ok', data_algebra.__file__)\"",
        "hooks": {
            "guard": "DATA_ALGEBRA_VERIF",
            "enable": "no source hooks are needed: checks import data_algebra straight from /repo's working tree and drive public seams only; the variable is set by check.py but nothing in /repo reads it",
            "baseline_off_cmd": "cd /repo && /venv/bin/python -m pytest -ra -q -p no:cacheprovider --timeout=900 --continue-on-collection-errors",
            "source_commits": hooks_commits,
            "add_only": True,
        },
        "engines": [
            {
                "name": "mc",
                "path": "/verif/mc",
                "serves_properties": sorted(CHECKS),
                "kind_free_text": "hand-written explicit-state / bounded-exhaustive explorers in Python driving the real data_algebra code (pipeline builder BFS with canonical state hashing, full input-domain products, full state graphs of small stateful objects), each with a boring reference model or metamorphic oracle",
            }
        ],
        "checks": checks,
        "not_applicable": na,
        "notes": "All checks: /verif/check.py <id> --tier quick|thorough. Known findings in /verif/known_findings.json. See DESIGN.md.",
    }
    out = os.path.join(HERE, "MANIFEST.json")
    with open(out, "w") as f:
        json.dump(man, f, indent=1)
    print("wrote", out, "checks:", len(checks), "not_applicable:", len(na))


if __name__ == "__main__":
    main()
