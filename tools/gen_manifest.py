#!/venv/bin/python
"""Regenerate /verif/MANIFEST.json from the table below (kept valid at all times)."""
import json
import os
import subprocess
import sys

HERE = os.path.dirname(os.path.dirname(os.path.abspath(__file__)))

# id -> (category, technique, level text, level note, design ref)
PX_NOTE = "Trusted base: the explorer's structural state dump (mc/hist.canon), the step menus and row alphabets (stated in the evidence), the comparison relation EQ (mc/compare.py) and, only for disagreements, the reference interpreter R (mc/refmodel.py). Nothing beyond the stated alphabets and depth is claimed."

CHECKS = {
    "C01": (
        "model_checking",
        "explicit-state BFS over the real pipeline builder (canonical state hashing) x exhaustive small inputs; Pandas-vs-SQLite differential oracle, reference interpreter arbitrates disagreements",
        "Every pipeline reachable in <= 2 builder calls over a ~120-entry step menu (thorough: plus <= 3 calls over a SQL-translation slice) is executed on every multiset of <= 2 (thorough 3) rows of a collision-forcing row alphabet on both the Pandas executor and generated SQL on SQLite; results must be EQ, or differ only by a documented destination convention, or match the exact as-is model of a listed finding.",
        PX_NOTE,
        "DESIGN.md 3/C01",
    ),
    "C03": (
        "model_checking",
        "explicit-state BFS over the real pipeline builder x exhaustive small inputs as Polars eager and lazy frames; Polars-vs-Pandas differential oracle (raise accepted)",
        "Same state space as C01; each (pipeline, input) is run on Pandas and on Polars (eager and lazy). A Polars exception is accepted and counted; a returned table must equal the Pandas table as a multiset (Pandas-side listed findings excused through the exact as-is model). Evidence reports, per step kind, how many Polars executions returned.",
        PX_NOTE,
        "DESIGN.md 3/C03",
    ),
    "C08": (
        "model_checking",
        "explicit-state BFS over the real pipeline builder x small inputs (incl. empty) x 5 executors; invariant: returned columns == declared column_names",
        "Every pipeline reachable in <= 2 builder calls (thorough: + column slice to depth 3) is executed on Pandas, Polars eager/lazy, SQLite and PostgreSQL-dialect text on the SQLite engine, on all multisets of <= 2 rows of a 2-row alphabet (empty input included); the returned column set must equal ops.column_names, and the order too after a final select_columns / bare table. No reference model is involved.",
        "A backend that raises returns no table and is not judged. pgtext@sqlite is not a PostgreSQL server; only column names are read from it.",
        "DESIGN.md 3/C08",
    ),
    "C09": (
        "model_checking",
        "bounded-exhaustive enumeration prefix x aggregation step x suffix x all small inputs x 5 executors; row-count / group-key invariant and per-group reference aggregates",
        "For every prefix state (depth <= 1), every project and unordered windowed-extend menu entry and five suffix shapes (none, overwrite all outputs, drop all outputs, rename, order) the pipeline is run on all multisets of <= 2 rows over the full product domain (null keys, all-null groups, empty table) on every backend: a grouped project must return one row per distinct key of the backend's own prefix result (null is a key), an un-grouped project exactly one row, a windowed extend every input row with the per-group reference value.",
        "The node's input is the same backend's evaluation of the prefix (self-consistent oracle); reference aggregate functions in mc/refmodel.py are trusted for the windowed values.",
        "DESIGN.md 3/C09",
    ),
    "C24": (
        "model_checking",
        "explicit-state search: complete reachable state graph of the real OrderedSet, lock-step dict/set reference model",
        "All 16 (quick: 3 elements; thorough: 65, 4 elements) reachable ordered states x every public operation x every small operand list are executed on the real class and compared with an insertion-ordered dict and a plain set after every transition; helpers on all pairs of lists of length <= 3. Complete for the stated element count, nothing sampled.",
        "Assumes behaviour does not depend on element identity beyond equality/hash (elements are short strings); pop() may return any member.",
        "DESIGN.md 3/C24",
    ),
}

NOT_YET = "check not built yet in this session (work in progress, see DESIGN.md section 3)"

NOT_APPLICABLE = {
    "C02": "needs a real PostgreSQL server as the transition function; none exists in this sealed sandbox (no binaries, no network). PostgreSQL-dialect text paths are exercised on the SQLite engine under C04/C08/C16 only where the oracle does not depend on PostgreSQL value semantics (DESIGN.md section 4).",
}


def main():
    props = [json.loads(l) for l in open(os.path.join(HERE, "properties.jsonl"))]
    checks = []
    na = []
    for p in props:
        pid = p["id"]
        if pid in CHECKS:
            cat, tech, text, note, ref = CHECKS[pid]
            checks.append(
                {
                    "property_id": pid,
                    "quick_cmd": f"/venv/bin/python /verif/check.py {pid} --tier quick",
                    "thorough_cmd": f"/venv/bin/python /verif/check.py {pid} --tier thorough",
                    "evidence_file": f"/verif/evidence/{pid}.json",
                    "replay_cmd_template": f"/venv/bin/python /verif/check.py {pid} --replay {{path}}",
                    "engine": "mc",
                    "level_claimed": {"category": cat, "text": text, "design_ref": ref},
                    "level_note": note,
                    "technique": tech,
                }
            )
        else:
            na.append({"property_id": pid, "reason": NOT_APPLICABLE.get(pid, NOT_YET)})
    hooks_commits = []
    man = {
        "version": 1,
        "setup_cmd": "/venv/bin/python -c \"import sys; sys.path.insert(0,'/repo'); import data_algebra, pandas, polars, sqlite3; print('ok', data_algebra.__file__)\"",
        "hooks": {
            "guard": "DATA_ALGEBRA_VERIF",
            "enable": "no source hooks are needed: checks import data_algebra straight from /repo's working tree and drive public seams only; the variable is set by check.py but nothing in /repo reads it",
            "baseline_off_cmd": "cd /repo && /venv/bin/python -m pytest -ra -q -p no:cacheprovider --timeout=900 --continue-on-collection-errors",
            "source_commits": hooks_commits,
            "add_only": True,
        },
        "engines": [
            {
                "name": "mc",
                "path": "/verif/mc",
                "serves_properties": sorted(CHECKS),
                "kind_free_text": "hand-written explicit-state / bounded-exhaustive explorers in Python driving the real data_algebra code (pipeline builder BFS with canonical state hashing, full input-domain products, full state graphs of small stateful objects), each with a boring reference model or metamorphic oracle",
            }
        ],
        "checks": checks,
        "not_applicable": na,
        "notes": "All checks: /verif/check.py <id> --tier quick|thorough. Known findings in /verif/known_findings.json. See DESIGN.md.",
    }
    out = os.path.join(HERE, "MANIFEST.json")
    with open(out, "w") as f:
        json.dump(man, f, indent=1)
    print("wrote", out, "checks:", len(checks), "not_applicable:", len(na))


if __name__ == "__main__":
    main()
