#!/bin/bash
# usage: run_all.sh <tier> [ids...]  -- runs the registered checks one after another on /repo, prints status and wall time
TIER="${1:-quick}"; shift
IDS="$@"
if [ -z "$IDS" ]; then IDS=$(python3 -c "import json; print(' '.join(c['property_id'] for c in json.load(open('/verif/MANIFEST.json'))['checks']))"); fi
for C in $IDS; do
  S=$(date +%s)
  /venv/bin/python /verif/check.py $C --tier $TIER > /tmp/runall_$C.log 2>&1; RC=$?
  echo "$C rc=$RC wall=$(( $(date +%s) - S ))s violations=$(grep -c '^VIOLATION' /tmp/runall_$C.log) known=$(grep -c '^KNOWN-FINDING' /tmp/runall_$C.log)"
done
