#!/bin/bash
# usage: run_all.sh <tier> [ids...]  -- runs the registered checks one after another on /repo, prints status and wall time
HERE="$(cd "$(dirname "$0")/.." && pwd)"   # the /verif copy this script lives in (a vp run snapshot uses its own)
TIER="${1:-quick}"; shift
IDS="$@"
if [ -z "$IDS" ]; then IDS=$(python3 -c "import json; print(' '.join(c['property_id'] for c in json.load(open('$HERE/MANIFEST.json'))['checks']))"); fi
for C in $IDS; do
  S=$(date +%s)
  /venv/bin/python "$HERE/check.py" $C --tier $TIER > /tmp/runall_${TIER}_$C.log 2>&1; RC=$?
  echo "$C rc=$RC wall=$(( $(date +%s) - S ))s violations=$(grep -c '^VIOLATION' /tmp/runall_${TIER}_$C.log) known=$(grep -c '^KNOWN-FINDING' /tmp/runall_${TIER}_$C.log)"
done
