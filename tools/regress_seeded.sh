#!/bin/bash
# usage: regress_seeded.sh [tier] [ids...]  -- runs every seeded change (or the named ones) against the check of its property
# (scratch worktree, never /repo) and prints one line per change: CAUGHT / MISSED
TIER="${1:-quick}"; shift
IDS="$@"; if [ -z "$IDS" ]; then IDS=$(cd /verif/seeded && ls -d */ | tr -d /); fi
for SID in $IDS; do
  P=$(python3 -c "import json;print(json.load(open('/verif/seeded/$SID/meta.json'))['property'])")
  OUT=$(/verif/tools/try_mutant.sh /verif/seeded/$SID $TIER $P 2>&1)
  DEMO=$(echo "$OUT" | grep -m1 "^demo:")
  LINE=$(echo "$OUT" | grep -m1 "^check ")
  if echo "$LINE" | grep -q "rc=1 violation_lines=[1-9]"; then V=CAUGHT; else V=MISSED; fi
  echo "$SID $V | $DEMO | $(echo "$LINE" | cut -c1-260)"
done
