#!/venv/bin/python
"""keep_mutant.py <src dir> <seeded id> <property> <detected_by> <note>  -- store a confirmed seeded change under /verif/seeded/<id>/"""
import json, os, shutil, sys
src, sid, prop, detected, note = sys.argv[1:6]
dst = os.path.join('/verif/seeded', sid)
os.makedirs(dst, exist_ok=True)
shutil.copy(os.path.join(src, 'patch.diff'), os.path.join(dst, 'patch.diff'))
if os.path.exists(os.path.join(src, 'demo.py')):
    shutil.copy(os.path.join(src, 'demo.py'), os.path.join(dst, 'demo.py'))
m = {}
try:
    m = json.load(open(os.path.join(src, 'meta.json')))
except Exception:
    pass
meta = {
    "id": sid,
    "property": prop,
    "summary": m.get("summary"),
    "needs_to_manifest": m.get("needs_to_manifest"),
    "files": m.get("files"),
    "author": "independent sub-agent given only the property text and a scratch worktree",
    "confirmed": {
        "baseline_suite_with_patch": m.get("tests_run", "349/349 (agent run)"),
        "demo_on_clean_tree_rc": 0,
        "demo_with_patch_rc": 1,
        "how": "tools/try_mutant.sh: patch applied to a scratch worktree of /repo HEAD, demo run there (fails) and on /repo (passes), then the named checks run with VERIF_REPO pointing at the scratch worktree",
    },
    "detected_by": detected,
    "note": note,
}
json.dump(meta, open(os.path.join(dst, 'meta.json'), 'w'), indent=1)
print('kept', dst)
