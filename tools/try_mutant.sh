#!/bin/bash
# usage: try_mutant.sh <mutant dir with patch.diff [+ demo.py]> <tier> <check id>...
# Applies the patch to a scratch worktree of /repo HEAD (never to /repo), confirms the demo fails
# there, runs the named checks against the scratch copy (VERIF_REPO) and prints one line per check.
MD="$1"; TIER="$2"; shift 2
WT=$(mktemp -d /tmp/mutrun.XXXXXX)
rmdir "$WT"
git -C /repo worktree add -q --detach "$WT" HEAD || exit 2
cleanup() { git -C /repo worktree remove --force "$WT" >/dev/null 2>&1; rm -rf "$WT" "$OUT"; }
OUT=$(mktemp -d /tmp/mutout.XXXXXX)
trap cleanup EXIT
if ! git -C "$WT" apply "$MD/patch.diff"; then echo "PATCH DOES NOT APPLY: $MD"; exit 3; fi
if [ -f "$MD/demo.py" ]; then
  (cd "$WT" && PYTHONPATH="$WT" timeout 600 /venv/bin/python "$MD/demo.py" >"$OUT/demo.log" 2>&1); DRC=$?
  (cd /repo && PYTHONPATH=/repo timeout 600 /venv/bin/python "$MD/demo.py" >"$OUT/demo_clean.log" 2>&1); CRC=$?
  echo "demo: mutant rc=$DRC clean rc=$CRC"
fi
for C in "$@"; do
  START=$(date +%s)
  VERIF_REPO="$WT" VERIF_EVIDENCE_DIR="$OUT/ev" VERIF_REPLAY_DIR="$OUT/rp" /venv/bin/python /verif/check.py "$C" --tier "$TIER" >"$OUT/$C.log" 2>&1; RC=$?
  NV=$(grep -c "^VIOLATION" "$OUT/$C.log")
  echo "check $C tier=$TIER rc=$RC violation_lines=$NV wall=$(( $(date +%s) - START ))s :: $(grep -m1 -A1 '^VIOLATION' "$OUT/$C.log" | tail -1 | cut -c1-300)"
  if [ "$RC" != "0" ] && [ "$RC" != "1" ]; then tail -5 "$OUT/$C.log"; fi
done
