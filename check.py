#!/venv/bin/python
"""
Entry point of the model-checking harness.

  check.py <Cxx> [--tier quick|thorough] [--replay <file>]

Exit 0: property held on everything explored (KNOWN-FINDING lines may be printed).
Exit 1: `VIOLATION property=<id> replay=<path>` lines printed.
"""

import argparse
import importlib
import json
import os
import sys

HERE = os.path.dirname(os.path.abspath(__file__))


def main():
    ap = argparse.ArgumentParser()
    ap.add_argument("prop")
    ap.add_argument("--tier", default=os.environ.get("VERIF_TIER") or "quick")
    ap.add_argument("--replay", default=None)
    args = ap.parse_args()
    if args.tier not in ("quick", "thorough"):
        args.tier = "quick"
    seed = int(os.environ.get("VERIF_SEED", "0") or 0)
    # hash order is an environment input of the library (it iterates over sets when it
    # builds SQL term lists): pin it from VERIF_SEED so that a run is reproducible.
    want = str(seed % 4294967295)
    if os.environ.get("PYTHONHASHSEED") != want:
        os.environ["PYTHONHASHSEED"] = want
        os.execv(sys.executable, [sys.executable] + sys.argv)
    repo = os.environ.get("VERIF_REPO", "/repo")
    sys.path.insert(0, repo)
    sys.path.insert(0, HERE)
    os.environ.setdefault("DATA_ALGEBRA_VERIF", "1")
    # one explorer process per core: keep the numeric libraries single-threaded inside each
    os.environ.setdefault("POLARS_MAX_THREADS", "1")
    os.environ.setdefault("OMP_NUM_THREADS", "1")
    os.environ.setdefault("OPENBLAS_NUM_THREADS", "1")
    import warnings

    warnings.filterwarnings("ignore")
    from mc import core

    core.assert_repo_import()
    mod = importlib.import_module("mc.props." + args.prop.lower())
    if args.replay:
        with open(args.replay) as f:
            doc = json.load(f)
        rc = mod.replay(doc)
        sys.exit(rc)
    rc = mod.run(args.tier)
    sys.exit(rc)


if __name__ == "__main__":
    main()
